package vvc

import (
	"fmt"
	"math/rand"
	"sort"
	"strings"

	"verif/rig"
	"verif/sqlrig"
)

// ---------------------------------------------------------------------------------------------------------
// C33  Historical reads return the committed data
// ---------------------------------------------------------------------------------------------------------

func c33(c *rig.Ctx) {
	c.Rule("seeded histories of 4-8 commits on main plus a side branch (half of them) with create/drop/rename table, add/drop column (with and without " +
		"default), add/drop index and row edits; tags on random commits; uncommitted edits are left in the working sets of both branches. The model state of " +
		"every table is recorded at every commit. EVERY commit x EVERY table name that ever existed x EVERY access path is read: AS OF '<hash>', AS OF " +
		"'<branch>', AS OF '<tag>', AS OF 'HEAD~n' / '<branch>~n', `db/<hash>`.t, `db/<tag>`.t, USE `db/<hash>` + plain select + SHOW TABLES, and " +
		"dolt_history_<t> WHERE commit_hash = c projected to the columns t has in the session's working set; the history table is also read with " +
		"commit_hash IN (...), pk = k, pk = k AND commit_hash = c and <indexed column> = v and compared with the client-side filter of its full scan. " +
		"A read is distinct by (access path, table present?, schema differs from HEAD?, renamed-away?)")
	c.Assume("a table that is absent at the commit must yield a 'table not found' error; dolt_history_<t> is compared only for commits reachable from the " +
		"session's HEAD (its documented scope) and follows the table NAME (a renamed table has no rows for commits where it had another name); columns of the " +
		"current schema that did not exist (same name and type) at the commit read as NULL; `db/<branch>` is the branch's WORKING set (documented), so it is " +
		"compared with the model's uncommitted state, not with the commit")
	srv, stop := startServer(c, "c33")
	defer stop()
	nh := c.Pick(40, 500)
	st := newTally()
	runParallel(nh, 4, func(i int) {
		if st.get("c33.unclassified_violations") > 12 {
			return
		}
		r := c.SubRand("c33", i)
		h := genWHist(r, fmt.Sprintf("c33_%d", i), whistOpts{MinCommits: 4, MaxCommits: 8, Indexes: true, Defaults: true, Hostile: r.Intn(2) == 0, Tags: true, Dirty: true, TypeChange: true, UniqueIdx: true})
		c.Case(fmt.Sprintf("c33/%d", i), map[string]any{"db": h.DB, "script": sqls(h.Steps)})
		if i < 3 {
			c.Sample(map[string]any{"script": sqls(h.Steps), "checked": "every commit x every table name x every access path"})
		}
		runC33(c, srv, h, st, c.SubRand("c33point", i))
	})
	st.flush(c)
	for _, k := range []string{"c33.asof_hash", "c33.asof_branch", "c33.asof_tag", "c33.asof_ancestor_spec", "c33.revdb_hash", "c33.revdb_tag", "c33.use_revdb", "c33.history_commit_eq"} {
		c.Require(st.get(k) > 0, "access path never exercised: "+k)
	}
	c.Require(st.get("c33.absent_table_reads") > 0, "no read of a table at a commit where it is absent")
	c.Require(st.get("c33.reads_with_different_schema") > 0, "no read at a commit whose schema differs from the current one")
	c.Require(st.get("c33.history_index_filters") > 0, "no index-assisted history filter")
	c.Require(st.get("c33.point_asof_lookups") > 0 && st.get("c33.point_asof_lookups_schema_drift") > 0, "no AS OF point lookup at a commit whose schema differs from HEAD")
	c.Require(st.get("c33.point_asof_lookups_warm_cache") > 0, "no AS OF point lookup after a HEAD point lookup of the same table in the same session")
	c.Require(st.get("c33.point_asof_lookups_table_gone_at_head") > 1, "no AS OF point lookups of tables that were renamed/dropped since")
	c.Require(st.get("c33.branch_working_differs_from_head") > 0, "no branch whose working set differs from its HEAD (AS OF branch vs working set would be indistinguishable)")
}

func runC33(c *rig.Ctx, srv *sqlrig.Server, h *whist, st *tally, pr *rand.Rand) {
	x := srv.MustOpen("")
	defer x.Close()
	rig.Must(x.Exec("create database " + h.DB))
	defer x.Exec("drop database " + h.DB)
	rig.Must(x.Exec("use " + h.DB))
	if err := runScript(x, h.Steps, h.recs); err != nil {
		c.Violation("c33/setup", "history script failed: "+err.Error(), map[string]any{"db": h.DB, "script": sqls(h.Steps)})
		return
	}
	hashes := map[string]string{}
	for _, cm := range h.Commits {
		hashes[fmt.Sprintf("c%d", cm.Idx)] = cm.Hash
	}
	viol := func(key, what string, extra map[string]any) {
		if !strings.HasPrefix(key, "c33/history/index-lookup-on-changed-schema/") {
			st.inc("c33.unclassified_violations")
		}
		w := map[string]any{"db": h.DB, "script": sqls(h.Steps), "hashes": hashes}
		for k, v := range extra {
			w[k] = v
		}
		c.Violation(key, what, w)
	}
	// every table name that ever existed
	nameSet := map[string]bool{}
	for _, cm := range h.Commits {
		for n := range cm.W.S {
			nameSet[n] = true
		}
	}
	var names []string
	for n := range nameSet {
		names = append(names, n)
	}
	sort.Strings(names)
	headW := h.Dirty["main"] // working set of the session's branch

	// read compares one access path with the expected table (nil = must be "table not found").
	read := func(path, q string, want *sqlrig.Table, ci int, name string) {
		st.inc("c33." + path)
		r, err := x.Query(q)
		differs := want != nil && headW.S[name] != nil && layout(want) != layout(headW.S[name])
		if differs {
			st.inc("c33.reads_with_different_schema")
		}
		c.Distinct(fmt.Sprintf("%s/%v/%v/%v", path, want != nil, differs, want != nil && headW.S[name] == nil))
		if want == nil {
			st.inc("c33.absent_table_reads")
			if err == nil {
				viol("c33/"+path+"/absent-table-readable", fmt.Sprintf("table %s does not exist at c%d but the read succeeded with %d rows", name, ci, len(r.Data)), map[string]any{"query": q, "rows": r.Sorted()})
			} else if !isNotFound(err) {
				viol("c33/"+path+"/absent-table-error", fmt.Sprintf("table %s does not exist at c%d; expected 'table not found', got: %v", name, ci, err), map[string]any{"query": q})
			}
			return
		}
		if err != nil {
			viol("c33/"+path+"/error", fmt.Sprintf("table %s exists at c%d but the read failed: %v", name, ci, err), map[string]any{"query": q})
			return
		}
		if g, w := strings.Join(r.Sorted(), "\n"), strings.Join(want.SortedRows(), "\n"); g != w {
			viol("c33/"+path+"/rows", fmt.Sprintf("table %s at c%d: got %q, recorded state %q", name, ci, r.Sorted(), want.SortedRows()), map[string]any{"query": q})
		}
	}
	for ci, cm := range h.Commits {
		for _, n := range names {
			want := cm.W.S[n]
			read("asof_hash", fmt.Sprintf("select * from `%s` as of '%s'", n, cm.Hash), want, ci, n)
			read("revdb_hash", fmt.Sprintf("select * from `%s/%s`.`%s`", h.DB, cm.Hash, n), want, ci, n)
		}
		// USE `db/<hash>`
		if err := x.Exec(fmt.Sprintf("use `%s/%s`", h.DB, cm.Hash)); err != nil {
			viol("c33/use_revdb/error", err.Error(), nil)
		} else {
			for _, n := range names {
				read("use_revdb", fmt.Sprintf("select * from `%s`", n), cm.W.S[n], ci, n)
			}
			if r, err := x.Query("show tables"); err == nil {
				var got []string
				for _, row := range r.Data {
					got = append(got, row[0])
				}
				sort.Strings(got)
				if g, w := strings.Join(got, ","), strings.Join(cm.W.S.names(), ","); g != w {
					viol("c33/use_revdb/tables", fmt.Sprintf("SHOW TABLES in `db/c%d` = [%s], recorded [%s]", ci, g, w), nil)
				}
			}
		}
		rig.Must(x.Exec("use " + h.DB))
	}
	// named refs
	for tag, ci := range h.Tags {
		for _, n := range names {
			read("asof_tag", fmt.Sprintf("select * from `%s` as of '%s'", n, tag), h.Commits[ci].W.S[n], ci, n)
			read("revdb_tag", fmt.Sprintf("select * from `%s/%s`.`%s`", h.DB, tag, n), h.Commits[ci].W.S[n], ci, n)
		}
	}
	for br, tip := range h.Tips {
		if !snapEq(h.Dirty[br].S, h.Commits[tip].W.S) {
			st.inc("c33.branch_working_differs_from_head")
		}
		for _, n := range names {
			read("asof_branch", fmt.Sprintf("select * from `%s` as of '%s'", n, br), h.Commits[tip].W.S[n], tip, n)
			// revision database of a branch = its working set
			read("revdb_branch_working", fmt.Sprintf("select * from `%s/%s`.`%s`", h.DB, br, n), h.Dirty[br].S[n], tip, n)
		}
		k := 0
		for ci := tip; ci >= 0; ci = h.Commits[ci].Parents[0] {
			for _, n := range names {
				read("asof_ancestor_spec", fmt.Sprintf("select * from `%s` as of '%s~%d'", n, br, k), h.Commits[ci].W.S[n], ci, n)
				if br == "main" {
					read("asof_ancestor_spec", fmt.Sprintf("select * from `%s` as of 'HEAD~%d'", n, k), h.Commits[ci].W.S[n], ci, n)
				}
			}
			k++
		}
	}
	c33PointLookups(c, x, h, names, pr, st, viol)
	// history tables, from a session on each branch
	for br, tip := range h.Tips {
		y := x
		if br != "main" {
			y = srv.MustOpen(h.DB)
			if err := y.Exec("call dolt_checkout('" + br + "')"); err != nil {
				viol("c33/setup", "checkout in second session: "+err.Error(), nil)
				y.Close()
				continue
			}
		}
		c33History(c, y, h, br, tip, st, viol)
		if y != x {
			y.Close()
		}
	}
}

// c33History checks dolt_history_<t> for every table of the branch's working set.
func c33History(c *rig.Ctx, y *sqlrig.Session, h *whist, br string, tip int, st *tally, viol func(string, string, map[string]any)) {
	cur := h.Dirty[br]
	var reach []int
	for ci := tip; ci >= 0; ci = h.Commits[ci].Parents[0] {
		reach = append(reach, ci)
	}
	for _, n := range cur.S.names() {
		t := cur.S[n]
		cols := []string{"pk"}
		for _, col := range t.Cols {
			cols = append(cols, "`"+col.Name+"`")
		}
		sel := "select " + strings.Join(cols, ", ") + ", commit_hash from `dolt_history_" + n + "`"
		// expected projection per reachable commit
		want := map[int][]string{}
		var wantAll []string
		schemaVaried := false
		project := func(ci int) []string {
			old := h.Commits[ci].W.S[n]
			if old == nil {
				return nil
			}
			var out []string
			pos := map[string]int{}
			for i, col := range old.Cols {
				pos[col.Name+":"+col.Type] = i
			}
			for pk, row := range old.Rows {
				parts := []string{fmt.Sprint(pk)}
				for _, col := range t.Cols {
					if i, ok := pos[col.Name+":"+col.Type]; ok {
						parts = append(parts, row[i])
					} else {
						parts = append(parts, sqlrig.Null)
					}
				}
				parts = append(parts, h.Commits[ci].Hash)
				out = append(out, strings.Join(parts, "\x1f"))
			}
			sort.Strings(out)
			return out
		}
		for _, ci := range reach {
			if old := h.Commits[ci].W.S[n]; old != nil {
				if layout(old) != layout(t) {
					schemaVaried = true
				}
				want[ci] = project(ci)
				wantAll = append(wantAll, want[ci]...)
			}
		}
		sort.Strings(wantAll)
		full, err := y.Query(sel)
		if err != nil {
			viol("c33/history/error", fmt.Sprintf("full scan of dolt_history_%s on %s failed: %v", n, br, err), map[string]any{"query": sel})
			continue
		}
		st.inc("c33.history_full_scans")
		if g, w := strings.Join(full.Sorted(), "\n"), strings.Join(wantAll, "\n"); g != w {
			viol("c33/history/full-scan", fmt.Sprintf("dolt_history_%s on %s differs from the recorded states of the reachable commits: got %d rows %q want %d rows %q", n, br, len(full.Data), clip(full.Sorted()), len(wantAll), clip(wantAll)), map[string]any{"query": sel})
		}
		filterFull := func(pred func(row []string) bool) []string {
			var out []string
			for _, row := range full.Data {
				if pred(row) {
					out = append(out, strings.Join(row, "\x1f"))
				}
			}
			sort.Strings(out)
			return out
		}
		hc := len(cols) // index of commit_hash
		check := func(kind, where string, pred func(row []string) bool, model []string) {
			q := sel + " where " + where
			r, err := y.Query(q)
			cls := "c33/history/" + kind
			if schemaVaried && kind != "commit-eq" && kind != "commit-in" {
				// finding class: an index-assisted lookup (pk / secondary index) on a history table whose schema changed over the
				// reachable commits maps the historical row to the current schema BY POSITION (wrong column / conversion error)
				cls = "c33/history/index-lookup-on-changed-schema/" + kind
			}
			if err != nil {
				viol(cls+"/error", err.Error(), map[string]any{"query": q})
				return
			}
			g := strings.Join(r.Sorted(), "\n")
			if w := strings.Join(filterFull(pred), "\n"); g != w {
				viol(cls+"/vs-full-scan", fmt.Sprintf("filtered read of dolt_history_%s disagrees with the same filter applied to its full scan: got %q, full scan gives %q", n, clip(r.Sorted()), clip(filterFull(pred))), map[string]any{"query": q})
			}
			if model != nil {
				if w := strings.Join(model, "\n"); g != w {
					viol("c33/history/"+kind+"/rows", fmt.Sprintf("dolt_history_%s: got %q, recorded state (projected) %q", n, clip(r.Sorted()), clip(model)), map[string]any{"query": q})
				}
			}
		}
		for _, ci := range reach {
			hash := h.Commits[ci].Hash
			st.inc("c33.history_commit_eq")
			m := want[ci]
			if m == nil {
				m = []string{}
			}
			if h.Commits[ci].W.S[n] == nil {
				st.inc("c33.absent_table_reads")
			} else if layout(h.Commits[ci].W.S[n]) != layout(t) {
				st.inc("c33.reads_with_different_schema")
			}
			check("commit-eq", fmt.Sprintf("commit_hash = '%s'", hash), func(row []string) bool { return row[hc] == hash }, m)
		}
		// Commits that are not reachable from this branch: the full scan does not list them (documented scope), a direct
		// commit_hash = filter may either agree with that or return exactly what the table held at that commit (which is
		// what the property statement asks for). Anything else is wrong.
		for ci, cm := range h.Commits {
			in := false
			for _, rc := range reach {
				in = in || rc == ci
			}
			if in {
				continue
			}
			q := sel + fmt.Sprintf(" where commit_hash = '%s'", cm.Hash)
			r, err := y.Query(q)
			if err != nil {
				viol("c33/history/commit-eq-unreachable/error", err.Error(), map[string]any{"query": q})
				continue
			}
			st.inc("c33.history_unreachable_commit_filters")
			if len(r.Data) == 0 {
				continue
			}
			st.inc("c33.history_unreachable_commit_filters_answered")
			if g, w := strings.Join(r.Sorted(), "\n"), strings.Join(project(ci), "\n"); g != w {
				viol("c33/history/commit-eq-unreachable/rows", fmt.Sprintf("dolt_history_%s filtered to c%d (not an ancestor of %s): got %q, recorded state (projected) %q", n, ci, br, clip(r.Sorted()), clip(project(ci))), map[string]any{"query": q})
			}
		}
		if len(reach) >= 2 {
			a, b := h.Commits[reach[0]].Hash, h.Commits[reach[len(reach)/2]].Hash
			st.inc("c33.history_index_filters")
			check("commit-in", fmt.Sprintf("commit_hash in ('%s','%s')", a, b), func(row []string) bool { return row[hc] == a || row[hc] == b }, nil)
		}
		for _, pk := range t.PKs() {
			spk := fmt.Sprint(pk)
			st.inc("c33.history_index_filters")
			check("pk-eq", "pk = "+spk, func(row []string) bool { return row[0] == spk }, nil)
			hash := h.Commits[reach[len(reach)/2]].Hash
			check("pk-and-commit", fmt.Sprintf("pk = %s and commit_hash = '%s'", spk, hash), func(row []string) bool { return row[0] == spk && row[hc] == hash }, nil)
			if pk > 2 {
				break
			}
		}
		for in, col := range cur.M[n].Idx {
			ci := -1
			for i, cc := range t.Cols {
				if cc.Name == col {
					ci = i
				}
			}
			if ci < 0 {
				continue
			}
			// a value the column held at some reachable commit
			val := ""
			for _, row := range full.Data {
				if row[ci+1] != sqlrig.Null {
					val = row[ci+1]
					break
				}
			}
			if val == "" {
				continue
			}
			st.inc("c33.history_index_filters")
			st.inc("c33.history_secondary_index_filters")
			_ = in
			check("secondary-index-eq", fmt.Sprintf("`%s` = %s", col, sqlrig.SQLLit(val)), func(row []string) bool { return row[ci+1] == val }, nil)
		}
	}
}

func clip(s []string) []string {
	if len(s) > 12 {
		return append(append([]string(nil), s[:12]...), fmt.Sprintf("... %d more", len(s)-12))
	}
	return s
}

// c33PointLookups: point lookups (the analyzer's LookupForExpressions fast path) through AS OF and revision databases, in the
// ONE long-lived session x, interleaved with point lookups of the HEAD version of the same tables so that every session-level
// lookup cache is warm with the HEAD schema; commits are visited in PRNG order (twice), so caches filled by one historical
// schema are met by another. Each returned row is compared by column name and value with the recorded row at that commit.
func c33PointLookups(c *rig.Ctx, x *sqlrig.Session, h *whist, names []string, r *rand.Rand, st *tally, viol func(string, string, map[string]any)) {
	headW := h.Dirty["main"]
	warm := map[string]bool{}
	// lookup runs q and compares the result with the model rows of tbl for the given pks (absent pk => no row).
	dead := false // the driver drops the connection when it cannot parse a (corrupt) row: report that once, not every follow-up
	lookup := func(path, q string, tbl *sqlrig.Table, ci int, pks []int64) {
		if dead {
			return
		}
		r, err := x.Query(q)
		if err != nil && (strings.Contains(err.Error(), "connection is already closed") || strings.Contains(err.Error(), "bad connection")) {
			dead = true
			return
		}
		if tbl == nil {
			if err == nil {
				viol("c33/"+path+"/absent-table-readable", fmt.Sprintf("table does not exist at c%d but the point lookup succeeded with %d rows", ci, len(r.Data)), map[string]any{"query": q})
			} else if !isNotFound(err) {
				viol("c33/"+path+"/absent-table-error", fmt.Sprintf("table does not exist at c%d; expected 'table not found', got: %v", ci, err), map[string]any{"query": q})
			}
			return
		}
		if err != nil {
			viol("c33/"+path+"/error", fmt.Sprintf("point lookup at c%d failed: %v", ci, err), map[string]any{"query": q})
			return
		}
		wantCols := []string{"pk"}
		for _, col := range tbl.Cols {
			wantCols = append(wantCols, col.Name)
		}
		if g, w := strings.Join(r.Cols, ","), strings.Join(wantCols, ","); g != w {
			viol("c33/"+path+"/columns", fmt.Sprintf("point lookup at c%d returned columns [%s], the table had [%s]", ci, g, w), map[string]any{"query": q})
			return
		}
		var want []string
		seen := map[int64]bool{}
		for _, pk := range pks {
			if row, ok := tbl.Rows[pk]; ok && !seen[pk] {
				seen[pk] = true
				want = append(want, fmt.Sprint(pk)+"\x1f"+strings.Join(row, "\x1f"))
			}
		}
		sort.Strings(want)
		if g, w := strings.Join(r.Sorted(), "\n"), strings.Join(want, "\n"); g != w {
			viol("c33/"+path+"/rows", fmt.Sprintf("point lookup at c%d (columns %v): got %q, recorded rows %q", ci, wantCols, r.Sorted(), want), map[string]any{"query": q})
		}
	}
	somePKs := func(t *sqlrig.Table) []int64 {
		pks := t.PKs()
		r.Shuffle(len(pks), func(i, j int) { pks[i], pks[j] = pks[j], pks[i] })
		if len(pks) > 2 {
			pks = pks[:2]
		}
		return append(pks, 7777) // 7777 is never a key
	}
	warmHead := func() {
		for _, n := range headW.S.names() {
			t := headW.S[n]
			wp := somePKs(t)
			if len(wp) > 2 {
				wp = wp[:2]
			}
			for _, pk := range wp {
				st.inc("c33.point_head_lookups")
				lookup("point_head", fmt.Sprintf("select * from `%s` where pk = %d", n, pk), t, h.Tips["main"], []int64{pk})
			}
			warm[n] = true
		}
	}
	tagOf := map[int]string{}
	for tag, ci := range h.Tags {
		tagOf[ci] = tag
	}
	order := append(r.Perm(len(h.Commits)), r.Perm(len(h.Commits))...)
	for _, ci := range order {
		warmHead()
		cm := h.Commits[ci]
		revs := []string{cm.Hash}
		if tag, ok := tagOf[ci]; ok {
			revs = append(revs, tag)
		}
		for br, tip := range h.Tips {
			if tip == ci {
				revs = append(revs, br)
			}
		}
		for _, n := range names {
			tbl := cm.W.S[n]
			rev := revs[r.Intn(len(revs))]
			count := func() {
				st.inc("c33.point_asof_lookups")
				if warm[n] {
					st.inc("c33.point_asof_lookups_warm_cache")
				}
				if tbl != nil && headW.S[n] != nil && layout(tbl) != layout(headW.S[n]) {
					st.inc("c33.point_asof_lookups_schema_drift")
				}
				if tbl != nil && headW.S[n] == nil {
					st.inc("c33.point_asof_lookups_table_gone_at_head")
				}
			}
			if tbl == nil {
				count()
				lookup("point_asof", fmt.Sprintf("select * from `%s` as of '%s' where pk = 0", n, rev), nil, ci, nil)
				continue
			}
			pks := somePKs(tbl)
			for _, pk := range pks {
				count()
				lookup("point_asof", fmt.Sprintf("select * from `%s` as of '%s' where pk = %d", n, rev, pk), tbl, ci, []int64{pk})
			}
			var in []string
			for _, pk := range pks {
				in = append(in, fmt.Sprint(pk))
			}
			count()
			lookup("point_asof_in", fmt.Sprintf("select * from `%s` as of '%s' where pk in (%s)", n, rev, strings.Join(in, ",")), tbl, ci, pks)
			st.inc("c33.point_revdb_lookups")
			lookup("point_revdb", fmt.Sprintf("select * from `%s/%s`.`%s` where pk = %d", h.DB, rev, n, pks[0]), revdbTable(h, rev, tbl), ci, []int64{pks[0]})
			// unique secondary key = v
			for in, col := range cm.W.M[n].Idx {
				if !strings.HasPrefix(in, "u") {
					continue
				}
				for i, cc := range tbl.Cols {
					if cc.Name != col {
						continue
					}
					for _, pk := range pks {
						if row, ok := tbl.Rows[pk]; ok && row[i] != sqlrig.Null {
							st.inc("c33.point_asof_unique_key_lookups")
							count()
							lookup("point_asof_unique", fmt.Sprintf("select * from `%s` as of '%s' where `%s` = %s", n, rev, col, sqlrig.SQLLit(row[i])), tbl, ci, []int64{pk})
							break
						}
					}
				}
			}
			c.Distinct(fmt.Sprintf("point/%v/%v", headW.S[n] == nil, headW.S[n] != nil && layout(tbl) != layout(headW.S[n])))
		}
	}
}

// revdbTable: `db/<branch>` is the branch's working set, every other revision is the commit.
func revdbTable(h *whist, rev string, committed *sqlrig.Table) *sqlrig.Table {
	if d, ok := h.Dirty[rev]; ok {
		return d.S[committed.Name]
	}
	return committed
}
