// Package vvc holds the monitors of the version-control semantics reachable through SQL:
// C31 (cherry-pick / revert / rebase), C32 (diff / patch), C33 (historical reads), C34 (stash / reset / checkout).
//
// Shared skeleton: a seeded generator produces a *script* (SQL statements with symbolic commit references
// "{c3}") together with the model state of every table at every commit the script makes. The script is logged
// (c.Case) before it runs; while it runs the commit hashes returned by dolt_commit are bound to the symbolic
// names. The operation under test is then executed and its observable result is compared with the model.
package vvc

import (
	"bufio"
	"fmt"
	"os"
	"regexp"
	"sort"
	"strings"
	"sync"

	"verif/rig"
	"verif/sqlrig"
)

// snap is the model state of every table of one root (a commit, a staged root or a working root).
type snap map[string]*sqlrig.Table

func (s snap) clone() snap {
	n := snap{}
	for k, v := range s {
		n[k] = v.Clone()
	}
	return n
}

func (s snap) names() []string {
	var out []string
	for k := range s {
		out = append(out, k)
	}
	sort.Strings(out)
	return out
}

// tableEq compares two model tables (columns by name and order, rows by value). nil means absent.
func tableEq(a, b *sqlrig.Table) bool {
	if a == nil || b == nil {
		return a == nil && b == nil
	}
	if len(a.Cols) != len(b.Cols) || len(a.Rows) != len(b.Rows) {
		return false
	}
	for i := range a.Cols {
		if a.Cols[i].Name != b.Cols[i].Name {
			return false
		}
	}
	return strings.Join(a.SortedRows(), "\n") == strings.Join(b.SortedRows(), "\n")
}

func snapEq(a, b snap) bool {
	if len(a) != len(b) {
		return false
	}
	for k, v := range a {
		if !tableEq(v, b[k]) {
			return false
		}
	}
	return true
}

// step is one statement of a generated script. Commit >= 0 means the statement is a dolt_commit whose
// resulting hash is bound to commit index Commit.
type step struct {
	SQL    string
	Commit int
}

// commitRec is the model of one commit made by a script.
type commitRec struct {
	Idx     int
	Parents []int
	Snap    snap
	Msg     string
	Branch  string // branch it was made on
	Hash    string // bound at execution time
}

var refRe = regexp.MustCompile(`\{c(\d+)\}`)

// subst replaces symbolic commit references by the bound hashes.
func subst(sql string, commits []*commitRec) string {
	return refRe.ReplaceAllStringFunc(sql, func(m string) string {
		var i int
		fmt.Sscanf(m, "{c%d}", &i)
		if i < len(commits) && commits[i].Hash != "" {
			return commits[i].Hash
		}
		return m
	})
}

// runScript executes the steps, binding commit hashes. It returns the first error (with its statement).
func runScript(x *sqlrig.Session, steps []step, commits []*commitRec) error {
	for _, st := range steps {
		q := subst(st.SQL, commits)
		if st.Commit >= 0 {
			r, err := x.Query(q)
			if err != nil {
				return fmt.Errorf("%s: %w", q, err)
			}
			if len(r.Data) != 1 || len(r.Data[0]) < 1 || len(r.Data[0][0]) != 32 {
				return fmt.Errorf("%s: no commit hash returned: %v", q, r.Data)
			}
			commits[st.Commit].Hash = r.Data[0][0]
			continue
		}
		if err := x.Exec(q); err != nil {
			return fmt.Errorf("%s: %w", q, err)
		}
	}
	return nil
}

func sqls(steps []step) []string {
	out := make([]string, len(steps))
	for i, s := range steps {
		out[i] = s.SQL
	}
	return out
}

// readTable reads `select * from <from>` and renders it like Table.SortedRows.
func readTable(x *sqlrig.Session, from string) ([]string, error) {
	r, err := x.Query("select * from " + from)
	if err != nil {
		return nil, err
	}
	return r.Sorted(), nil
}

func isNotFound(err error) bool {
	if err == nil {
		return false
	}
	s := strings.ToLower(err.Error())
	return strings.Contains(s, "table not found") || strings.Contains(s, "doesn't exist") || strings.Contains(s, "does not exist")
}

// checkSnap compares every table of want with the tables visible through prefix (e.g. "" for the current
// working set or "`db/rev`."), and the set of user tables. It returns a description of the first
// differences ("" when equal).
func checkSnap(x *sqlrig.Session, showFrom, prefix string, want snap) string {
	var diffs []string
	q := "show tables"
	if showFrom != "" {
		q += " from " + showFrom
	}
	r, err := x.Query(q)
	if err != nil {
		return "show tables: " + err.Error()
	}
	var got []string
	for _, row := range r.Data {
		got = append(got, row[0])
	}
	sort.Strings(got)
	if g, w := strings.Join(got, ","), strings.Join(want.names(), ","); g != w {
		diffs = append(diffs, fmt.Sprintf("tables: got [%s] want [%s]", g, w))
	}
	for _, n := range want.names() {
		rows, err := readTable(x, prefix+"`"+n+"`")
		if err != nil {
			diffs = append(diffs, n+": "+err.Error())
			continue
		}
		if g, w := strings.Join(rows, "\n"), strings.Join(want[n].SortedRows(), "\n"); g != w {
			diffs = append(diffs, fmt.Sprintf("%s: got %q want %q", n, rows, want[n].SortedRows()))
		}
	}
	return strings.Join(diffs, " ; ")
}

// tally is a goroutine-safe set of named counters (flushed into the evidence at the end of a stage).
type tally struct {
	mu sync.Mutex
	m  map[string]int
}

func newTally() *tally { return &tally{m: map[string]int{}} }

func (t *tally) inc(name string) { t.add(name, 1) }

func (t *tally) add(name string, n int) {
	t.mu.Lock()
	t.m[name] += n
	t.mu.Unlock()
}

func (t *tally) get(name string) int {
	t.mu.Lock()
	defer t.mu.Unlock()
	return t.m[name]
}

func (t *tally) flush(c *rig.Ctx) {
	t.mu.Lock()
	defer t.mu.Unlock()
	var names []string
	for k := range t.m {
		names = append(names, k)
	}
	sort.Strings(names)
	for _, k := range names {
		c.Count(k, t.m[k])
	}
}

// runParallel runs fn(0..n-1) on a small worker pool. Cases are independent (own database, own PRNG derived
// from the case index), so the outcome of a case does not depend on the interleaving.
func runParallel(n, workers int, fn func(i int)) {
	ch := make(chan int)
	var wg sync.WaitGroup
	for w := 0; w < workers; w++ {
		wg.Add(1)
		go func() {
			defer wg.Done()
			for i := range ch {
				fn(i)
			}
		}()
	}
	for i := 0; i < n; i++ {
		ch <- i
	}
	close(ch)
	wg.Wait()
}

// startServer starts the one in-process sql-server of this worker.
func startServer(c *rig.Ctx, label string) (*sqlrig.Server, func()) {
	dir := c.TempDir(label)
	srv, err := sqlrig.Start(dir + "/data")
	rig.Must(err)
	return srv, func() { srv.Stop(); os.RemoveAll(dir) }
}

func init() {
	// `vvc sql <file>`: run the statements of a file (one per line; lines starting with # are comments; a
	// leading "!" means "an error is expected") against a fresh in-process server and print every result.
	// It is the reproduction tool for the witnesses this engine writes.
	rig.SubCommands["sql"] = func(args []string) int {
		if len(args) < 1 {
			fmt.Fprintln(os.Stderr, "usage: sql <file>")
			return 2
		}
		f, err := os.Open(args[0])
		if err != nil {
			fmt.Fprintln(os.Stderr, err)
			return 2
		}
		defer f.Close()
		dir, err := os.MkdirTemp("/var/tmp", "verif-vvc-sql-")
		if err != nil {
			fmt.Fprintln(os.Stderr, err)
			return 2
		}
		defer os.RemoveAll(dir)
		srv, err := sqlrig.Start(dir + "/data")
		if err != nil {
			fmt.Fprintln(os.Stderr, err)
			return 2
		}
		defer srv.Stop()
		sess := map[string]*sqlrig.Session{}
		get := func(n string) *sqlrig.Session {
			if s, ok := sess[n]; ok {
				return s
			}
			s := srv.MustOpen("")
			sess[n] = s
			return s
		}
		sc := bufio.NewScanner(f)
		sc.Buffer(make([]byte, 1<<20), 1<<26)
		for sc.Scan() {
			line := strings.TrimSpace(sc.Text())
			if line == "" || strings.HasPrefix(line, "#") {
				continue
			}
			name := "0"
			if len(line) > 2 && line[0] == '@' { // "@2 select ..." runs on session 2
				sp := strings.IndexByte(line, ' ')
				name, line = line[1:sp], strings.TrimSpace(line[sp+1:])
			}
			line = strings.ReplaceAll(line, `\n`, "\n")
			fmt.Printf("> %s\n", line)
			r, err := get(name).Query(line)
			if err != nil {
				fmt.Printf("  ERROR: %v\n", err)
				continue
			}
			if len(r.Cols) > 0 {
				fmt.Printf("  [%s]\n", strings.Join(r.Cols, " | "))
			}
			for _, row := range r.Data {
				for i := range row {
					if row[i] == sqlrig.Null {
						row[i] = "NULL"
					}
				}
				fmt.Printf("  %s\n", strings.Join(row, " | "))
			}
		}
		for _, s := range sess {
			s.Close()
		}
		return 0
	}
}

// Register wires the vvc checks.
func Register() {
	rig.Register(&rig.Spec{Prop: "C31", Level: "exploration", Stages: []rig.Stage{{Name: "pick-revert-rebase", Fn: c31}}})
	rig.Register(&rig.Spec{Prop: "C32", Level: "exploration", Stages: []rig.Stage{{Name: "diff-patch", Fn: c32}}})
	rig.Register(&rig.Spec{Prop: "C33", Level: "exploration", Stages: []rig.Stage{{Name: "historical-reads", Fn: c33}}})
	rig.Register(&rig.Spec{Prop: "C34", Level: "exploration", Stages: []rig.Stage{{Name: "stash-reset-checkout", Fn: c34}}})
}
