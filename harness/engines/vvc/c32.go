package vvc

import (
	"fmt"
	"math/rand"
	"regexp"
	"sort"
	"strings"

	"verif/rig"
	"verif/sqlrig"
)

// ---------------------------------------------------------------------------------------------------------
// C32  Diffs and patches describe exactly the change between two commits
// ---------------------------------------------------------------------------------------------------------

// tmeta is what the model knows about a table beyond sqlrig.Table (columns + rows).
type tmeta struct {
	ID        int               // lineage: survives RENAME TABLE
	Idx       map[string]string // index name -> column
	Defaults  map[string]string // column -> default (SQL literal), "" = none
	PKDropped bool              // the primary key was dropped (table is keyless): data diff/patch is documented as skipped
}

func (m *tmeta) clone() *tmeta {
	n := &tmeta{ID: m.ID, PKDropped: m.PKDropped, Idx: map[string]string{}, Defaults: map[string]string{}}
	for k, v := range m.Idx {
		n.Idx[k] = v
	}
	for k, v := range m.Defaults {
		n.Defaults[k] = v
	}
	return n
}

// world is a model root: tables plus their metadata.
type world struct {
	S snap
	M map[string]*tmeta
}

func (w *world) clone() *world {
	n := &world{S: w.S.clone(), M: map[string]*tmeta{}}
	for k, v := range w.M {
		n.M[k] = v.clone()
	}
	return n
}

// layout is the ordered column list of a table (what `select *` shows).
func layout(t *sqlrig.Table) string {
	var s []string
	for _, c := range t.Cols {
		s = append(s, c.Name+":"+c.Type)
	}
	return strings.Join(s, ",")
}

// sig is the structural schema signature of a table.
func (w *world) sig(name string) string {
	t, m := w.S[name], w.M[name]
	var idx, def []string
	for k, v := range m.Idx {
		idx = append(idx, k+"="+v)
	}
	for k, v := range m.Defaults {
		if v != "" {
			def = append(def, k+"="+v)
		}
	}
	sort.Strings(idx)
	sort.Strings(def)
	return fmt.Sprintf("%s|%v|%v|%v", layout(t), idx, def, m.PKDropped)
}

func (w *world) byID(id int) string {
	for n, m := range w.M {
		if m.ID == id {
			return n
		}
	}
	return ""
}

var hostileFrags = []string{"'", "''", `"`, `\`, `\\`, "\n", "\r\n", "\t", "`", "%", "_", `\n`, `\'`, `\"`, "é", "ß", "日本", "😀", "\x01", "\x1a", "\x7f",
	" ", "  ", "--", "/*", "*/", ";", "NULL", "0x41", `\0`, `\Z`, "#", "$$", "?", ":x", "@@v", ",", ")", "("}

// vgen generates unique cell values; strings carry hostile fragments.
type vgen struct {
	r    *rand.Rand
	next int64
}

func (g *vgen) value(c sqlrig.Col, allowNull bool) string {
	if allowNull && g.r.Intn(10) == 0 {
		return sqlrig.Null
	}
	g.next++
	if c.Type == "int" || c.Type == "bigint" {
		return fmt.Sprint(g.next)
	}
	pre, mid, suf := "", "", ""
	for k := g.r.Intn(4); k > 0; k-- {
		f := hostileFrags[g.r.Intn(len(hostileFrags))]
		switch g.r.Intn(3) {
		case 0:
			pre = f + pre
		case 1:
			suf += f
		default:
			mid += f
		}
	}
	return fmt.Sprintf("%ss%s%d%s", pre, mid, g.next, suf)
}

func (g *vgen) insert(t *sqlrig.Table, pk int64) string {
	row := make([]string, len(t.Cols))
	names := []string{"pk"}
	lits := []string{fmt.Sprint(pk)}
	for i, c := range t.Cols {
		row[i] = g.value(c, true)
		names = append(names, "`"+c.Name+"`")
		lits = append(lits, sqlrig.SQLLit(row[i]))
	}
	t.Rows[pk] = row
	return fmt.Sprintf("insert into `%s` (%s) values (%s)", t.Name, strings.Join(names, ", "), strings.Join(lits, ", "))
}

func (g *vgen) update(t *sqlrig.Table, pk int64) string {
	row := t.Rows[pk]
	n := 1
	if len(t.Cols) > 1 && g.r.Intn(2) == 0 {
		n = 1 + g.r.Intn(len(t.Cols))
	}
	perm := g.r.Perm(len(t.Cols))[:n]
	sort.Ints(perm)
	var sets []string
	for _, i := range perm {
		row[i] = g.value(t.Cols[i], true)
		sets = append(sets, fmt.Sprintf("`%s` = %s", t.Cols[i].Name, sqlrig.SQLLit(row[i])))
	}
	return fmt.Sprintf("update `%s` set %s where pk = %d", t.Name, strings.Join(sets, ", "), pk)
}

func (g *vgen) dml(t *sqlrig.Table, pool int) string {
	pk := int64(g.r.Intn(pool))
	_, exists := t.Rows[pk]
	switch {
	case !exists:
		return g.insert(t, pk)
	case len(t.Cols) > 0 && g.r.Intn(4) != 0:
		return g.update(t, pk)
	default:
		delete(t.Rows, pk)
		return fmt.Sprintf("delete from `%s` where pk = %d", t.Name, pk)
	}
}

// wcommit is a commit of a C32/C33 history.
type wcommit struct {
	commitRec
	W *world
}

// whist is a generated history with row edits and schema changes.
type whist struct {
	DB      string
	Steps   []step
	Commits []*wcommit
	recs    []*commitRec
	Tips    map[string]int
	Tags    map[string]int    // tag name -> commit
	Kinds   map[string]int    // what the generator did (for evidence)
	Dirty   map[string]*world // branch -> model of its working set after the script (uncommitted edits when whistOpts.Dirty)
}

type whistOpts struct {
	MinCommits, MaxCommits int
	PKChange               bool // allow DROP PRIMARY KEY
	Indexes, Defaults      bool
	Hostile                bool
	Tags                   bool
	Dirty                  bool // leave uncommitted row edits in the working set of every branch
	TypeChange             bool // MODIFY COLUMN int -> bigint / varchar(200) -> varchar(300)
	UniqueIdx              bool // some secondary indexes are UNIQUE (their name starts with "u")
	RenameCol              bool // RENAME COLUMN, also combined with a type widening / default change / index on the same column
}

func genWHist(r *rand.Rand, db string, o whistOpts) *whist {
	g := &vgen{r: r, next: 1000}
	h := &whist{DB: db, Tips: map[string]int{}, Tags: map[string]int{}, Kinds: map[string]int{}}
	add := func(sql string) { h.Steps = append(h.Steps, step{SQL: sql, Commit: -1}) }
	nextTab, nextCol, nextIdx, nextID := 0, 0, 0, 0
	pool := 4 + r.Intn(4)
	types := []string{"int", "varchar(200)", "text"}
	if !o.Hostile {
		types = []string{"int", "varchar(200)"}
	}
	w := &world{S: snap{}, M: map[string]*tmeta{}}
	newTable := func(w *world) {
		name := fmt.Sprintf("t%d", nextTab)
		nextTab++
		t := &sqlrig.Table{Name: name, Rows: map[int64][]string{}}
		for k := 1 + r.Intn(3); k > 0; k-- { // at least one non-key column (sqlrig.Table.Clone does not keep zero-width rows)
			t.Cols = append(t.Cols, sqlrig.Col{Name: fmt.Sprintf("c%d", nextCol), Type: types[r.Intn(len(types))]})
			nextCol++
		}
		w.S[name] = t
		w.M[name] = &tmeta{ID: nextID, Idx: map[string]string{}, Defaults: map[string]string{}}
		nextID++
		add(t.CreateSQL())
		for k := 0; k < pool; k++ {
			if r.Intn(2) == 0 {
				add(g.insert(t, int64(k)))
			}
		}
		h.Kinds["create-table"]++
	}
	editable := func(w *world) []string {
		var out []string
		for _, n := range w.S.names() {
			if !w.M[n].PKDropped {
				out = append(out, n)
			}
		}
		return out
	}
	ddl := func(w *world) {
		names := w.S.names()
		ed := editable(w)
		pick := func(l []string) string { return l[r.Intn(len(l))] }
		k := r.Intn(10)
		if o.RenameCol && r.Intn(4) == 0 {
			k = 9 // column rename / retype family more often (C32)
		}
		switch {
		case k == 0 || len(names) == 0:
			newTable(w)
		case k == 1 && len(names) > 1:
			n := pick(names)
			delete(w.S, n)
			delete(w.M, n)
			add("drop table `" + n + "`")
			h.Kinds["drop-table"]++
		case k == 2:
			n := pick(names)
			nn := fmt.Sprintf("t%d", nextTab)
			nextTab++
			w.S[nn], w.M[nn] = w.S[n], w.M[n]
			w.S[nn].Name = nn
			delete(w.S, n)
			delete(w.M, n)
			add(fmt.Sprintf("rename table `%s` to `%s`", n, nn))
			h.Kinds["rename-table"]++
		case (k == 3 || k == 4) && len(ed) > 0: // add column (end or after an existing column), with/without default
			n := pick(ed)
			t := w.S[n]
			col := sqlrig.Col{Name: fmt.Sprintf("c%d", nextCol), Type: types[r.Intn(len(types))]}
			nextCol++
			q := fmt.Sprintf("alter table `%s` add column `%s` %s", n, col.Name, col.Type)
			fill := sqlrig.Null
			if o.Defaults && r.Intn(2) == 0 && col.Type != "text" {
				fill = g.value(col, false)
				q += " default " + sqlrig.SQLLit(fill)
				w.M[n].Defaults[col.Name] = sqlrig.SQLLit(fill)
				h.Kinds["add-column-default"]++
			}
			pos := len(t.Cols)
			if len(t.Cols) > 0 && r.Intn(3) == 0 {
				pos = r.Intn(len(t.Cols))
				if pos == 0 {
					q += " after pk"
				} else {
					q += " after `" + t.Cols[pos-1].Name + "`"
				}
				h.Kinds["add-column-middle"]++
			}
			t.Cols = append(t.Cols[:pos], append([]sqlrig.Col{col}, t.Cols[pos:]...)...)
			for pk, row := range t.Rows {
				nr := append([]string(nil), row[:pos]...)
				nr = append(nr, fill)
				t.Rows[pk] = append(nr, row[pos:]...)
			}
			add(q)
			h.Kinds["add-column"]++
		case k == 5 && len(ed) > 0:
			n := pick(ed)
			t := w.S[n]
			if len(t.Cols) < 2 {
				return
			}
			pos := r.Intn(len(t.Cols))
			cn := t.Cols[pos].Name
			for in, ic := range w.M[n].Idx { // dropping an indexed column drops the index too; keep the model simple
				if ic == cn {
					delete(w.M[n].Idx, in)
				}
			}
			delete(w.M[n].Defaults, cn)
			t.Cols = append(append([]sqlrig.Col(nil), t.Cols[:pos]...), t.Cols[pos+1:]...)
			for pk, row := range t.Rows {
				t.Rows[pk] = append(append([]string(nil), row[:pos]...), row[pos+1:]...)
			}
			add(fmt.Sprintf("alter table `%s` drop column `%s`", n, cn))
			h.Kinds["drop-column"]++
		case k == 6 && o.Indexes && len(ed) > 0:
			n := pick(ed)
			t := w.S[n]
			if len(w.M[n].Idx) > 0 && r.Intn(2) == 0 {
				for in := range w.M[n].Idx {
					delete(w.M[n].Idx, in)
					add(fmt.Sprintf("alter table `%s` drop index `%s`", n, in))
					h.Kinds["drop-index"]++
					break
				}
				return
			}
			var cands []string
			for _, c := range t.Cols {
				if c.Type != "text" {
					cands = append(cands, c.Name)
				}
			}
			if len(cands) == 0 {
				return
			}
			in := fmt.Sprintf("i%d", nextIdx)
			uniq := ""
			cn := pick(cands)
			if o.UniqueIdx && r.Intn(2) == 0 && columnDistinct(t, cn) { // fresh cell values are unique; a DEFAULT fill is not
				in, uniq = fmt.Sprintf("u%d", nextIdx), "unique "
				h.Kinds["add-unique-index"]++
			}
			nextIdx++
			w.M[n].Idx[in] = cn
			add(fmt.Sprintf("create %sindex `%s` on `%s` (`%s`)", uniq, in, n, cn))
			h.Kinds["add-index"]++
		case k == 7 && o.Defaults && len(ed) > 0:
			n := pick(ed)
			t := w.S[n]
			var cands []sqlrig.Col
			for _, c := range t.Cols {
				if c.Type != "text" {
					cands = append(cands, c)
				}
			}
			if len(cands) == 0 {
				return
			}
			col := cands[r.Intn(len(cands))]
			if w.M[n].Defaults[col.Name] != "" && r.Intn(2) == 0 {
				delete(w.M[n].Defaults, col.Name)
				add(fmt.Sprintf("alter table `%s` alter column `%s` drop default", n, col.Name))
			} else {
				lit := sqlrig.SQLLit(g.value(col, false))
				w.M[n].Defaults[col.Name] = lit
				add(fmt.Sprintf("alter table `%s` alter column `%s` set default %s", n, col.Name, lit))
			}
			h.Kinds["change-default"]++
		case k == 9 && o.RenameCol && len(ed) > 0: // rename / retype / both on the same column (tags are kept by dolt)
			n := pick(ed)
			t := w.S[n]
			if len(t.Cols) == 0 {
				return
			}
			// prefer a column that was already renamed or retyped, so that both changes meet on one column across commits
			var pref []int
			for i, c := range t.Cols {
				if strings.HasPrefix(c.Name, "r") || c.Type == "bigint" || c.Type == "varchar(300)" {
					pref = append(pref, i)
				}
			}
			i := r.Intn(len(t.Cols))
			if len(pref) > 0 && r.Intn(2) == 0 {
				i = pref[r.Intn(len(pref))]
			}
			wider := map[string]string{"int": "bigint", "varchar(200)": "varchar(300)"}[t.Cols[i].Type]
			rename := func() string {
				old := t.Cols[i].Name
				nn := fmt.Sprintf("r%d", nextCol)
				nextCol++
				t.Cols[i].Name = nn
				for in, ic := range w.M[n].Idx {
					if ic == old {
						w.M[n].Idx[in] = nn
					}
				}
				if d, ok := w.M[n].Defaults[old]; ok {
					delete(w.M[n].Defaults, old)
					w.M[n].Defaults[nn] = d
				}
				h.Kinds["rename-column"]++
				return old
			}
			retype := func() {
				t.Cols[i].Type = wider
				delete(w.M[n].Defaults, t.Cols[i].Name) // MODIFY without a DEFAULT clause drops the default
				h.Kinds["type-change"]++
			}
			switch sub := r.Intn(6); {
			case sub == 0 && wider != "":
				retype()
				add(fmt.Sprintf("alter table `%s` modify column `%s` %s", n, t.Cols[i].Name, wider))
			case sub == 1 && wider != "": // both in one statement
				old := rename()
				retype()
				add(fmt.Sprintf("alter table `%s` change column `%s` `%s` %s", n, old, t.Cols[i].Name, wider))
				h.Kinds["rename+retype-same-commit"]++
			case sub == 2 && wider != "": // both, two statements
				old := rename()
				add(fmt.Sprintf("alter table `%s` rename column `%s` to `%s`", n, old, t.Cols[i].Name))
				retype()
				add(fmt.Sprintf("alter table `%s` modify column `%s` %s", n, t.Cols[i].Name, wider))
				h.Kinds["rename+retype-same-commit"]++
			case sub == 3 && t.Cols[i].Type != "text": // rename + index on the renamed column
				old := rename()
				add(fmt.Sprintf("alter table `%s` rename column `%s` to `%s`", n, old, t.Cols[i].Name))
				in := fmt.Sprintf("i%d", nextIdx)
				nextIdx++
				w.M[n].Idx[in] = t.Cols[i].Name
				add(fmt.Sprintf("create index `%s` on `%s` (`%s`)", in, n, t.Cols[i].Name))
				h.Kinds["rename+index"]++
			case sub == 4 && t.Cols[i].Type != "text" && o.Defaults: // rename + default change
				old := rename()
				add(fmt.Sprintf("alter table `%s` rename column `%s` to `%s`", n, old, t.Cols[i].Name))
				lit := sqlrig.SQLLit(g.value(t.Cols[i], false))
				w.M[n].Defaults[t.Cols[i].Name] = lit
				add(fmt.Sprintf("alter table `%s` alter column `%s` set default %s", n, t.Cols[i].Name, lit))
				h.Kinds["rename+default"]++
			default:
				old := rename()
				add(fmt.Sprintf("alter table `%s` rename column `%s` to `%s`", n, old, t.Cols[i].Name))
			}
		case k == 9 && o.TypeChange && len(ed) > 0: // widen a column type in place (position and values unchanged)
			n := pick(ed)
			t := w.S[n]
			var cands []int
			for i, c := range t.Cols {
				if c.Type == "int" || c.Type == "varchar(200)" {
					cands = append(cands, i)
				}
			}
			if len(cands) == 0 {
				return
			}
			i := cands[r.Intn(len(cands))]
			nt := "bigint"
			if t.Cols[i].Type != "int" {
				nt = "varchar(300)"
			}
			t.Cols[i].Type = nt
			delete(w.M[n].Defaults, t.Cols[i].Name)
			add(fmt.Sprintf("alter table `%s` modify column `%s` %s", n, t.Cols[i].Name, nt))
			h.Kinds["type-change"]++
		case k == 8 && o.PKChange && len(ed) > 1:
			n := pick(ed)
			w.M[n].PKDropped = true
			add(fmt.Sprintf("alter table `%s` drop primary key", n))
			h.Kinds["drop-primary-key"]++
		}
	}
	commit := func(w *world, branch string, parent int) {
		idx := len(h.Commits)
		wc := &wcommit{commitRec: commitRec{Idx: idx, Parents: []int{parent}, Msg: fmt.Sprintf("c%d", idx), Branch: branch}, W: w.clone()}
		wc.Snap = wc.W.S
		h.Commits = append(h.Commits, wc)
		h.recs = append(h.recs, &wc.commitRec)
		h.Steps = append(h.Steps, step{SQL: fmt.Sprintf("call dolt_commit('-Am','c%d')", idx), Commit: idx})
		h.Tips[branch] = idx
		if o.Tags && r.Intn(3) == 0 {
			tag := fmt.Sprintf("v%d", idx)
			add(fmt.Sprintf("call dolt_tag('%s')", tag))
			h.Tags[tag] = idx
		}
	}
	for k := 1 + r.Intn(2); k > 0; k-- {
		newTable(w)
	}
	commit(w, "main", -1)
	n := o.MinCommits + r.Intn(o.MaxCommits-o.MinCommits+1)
	branchAt := -1
	if r.Intn(2) == 0 {
		branchAt = r.Intn(n - 1)
	}
	work := map[string]*world{"main": w}
	on := "main"
	for len(h.Commits) < n {
		want := "main"
		if _, ok := h.Tips["br"]; ok && r.Intn(2) == 0 {
			want = "br"
		}
		if _, ok := h.Tips["br"]; !ok && branchAt >= 0 && len(h.Commits) > branchAt {
			add(fmt.Sprintf("call dolt_branch('br','{c%d}')", branchAt))
			h.Tips["br"] = branchAt
			work["br"] = h.Commits[branchAt].W.clone()
			want = "br"
		}
		if want != on {
			add(fmt.Sprintf("call dolt_checkout('%s')", want))
			on = want
		}
		cw := work[on]
		nsteps := len(h.Steps)
		for k := 1 + r.Intn(4); k > 0 || len(h.Steps) == nsteps; k-- {
			if r.Intn(3) == 0 {
				ddl(cw)
			} else if ed := editable(cw); len(ed) > 0 {
				add(g.dml(cw.S[ed[r.Intn(len(ed))]], pool))
				h.Kinds["dml"]++
			}
		}
		// make sure the commit is not empty: a fresh insert always changes data
		if ed := editable(cw); len(ed) > 0 {
			t := cw.S[ed[r.Intn(len(ed))]]
			add(g.insert(t, int64(pool)+int64(len(h.Commits))))
		} else {
			newTable(cw)
		}
		commit(cw, on, h.Tips[on])
	}
	h.Dirty = map[string]*world{}
	for _, br := range []string{"main", "br"} {
		if _, ok := h.Tips[br]; !ok {
			continue
		}
		dw := work[br]
		if dw == nil {
			dw = h.Commits[h.Tips[br]].W.clone()
		}
		if ed := editable(dw); o.Dirty && len(ed) > 0 {
			if on != br {
				add(fmt.Sprintf("call dolt_checkout('%s')", br))
				on = br
			}
			for k := 1 + r.Intn(2); k > 0; k-- {
				add(g.dml(dw.S[ed[r.Intn(len(ed))]], pool))
			}
		}
		h.Dirty[br] = dw
	}
	if on != "main" {
		add("call dolt_checkout('main')")
	}
	return h
}

// rowDiff is one expected row of the model diff between two versions of a table.
type rowDiff struct {
	PK       int64
	Type     string // added | removed | modified
	From, To []string
}

// modelDiff computes the row diff by column name. Rows compare equal when every column of either side that also
// exists on the other side is equal and ... (see must): it returns the rows that MUST be listed and the rows that MAY
// be listed (rows that differ only in columns that exist on one side only — their storage may or may not have been rewritten).
func modelDiff(a, b *sqlrig.Table) (must, may map[int64]rowDiff) {
	must, may = map[int64]rowDiff{}, map[int64]rowDiff{}
	var ar, br map[int64][]string
	if a != nil {
		ar = a.Rows
	}
	if b != nil {
		br = b.Rows
	}
	keys := map[int64]bool{}
	for k := range ar {
		keys[k] = true
	}
	for k := range br {
		keys[k] = true
	}
	sameLayout := a != nil && b != nil && layout(a) == layout(b)
	bpos := map[string]int{}
	if b != nil {
		for i, c := range b.Cols {
			bpos[c.Name] = i
		}
	}
	for k := range keys {
		fr, to := ar[k], br[k]
		switch {
		case fr == nil:
			must[k] = rowDiff{PK: k, Type: "added", To: to}
		case to == nil:
			must[k] = rowDiff{PK: k, Type: "removed", From: fr}
		default:
			d := rowDiff{PK: k, Type: "modified", From: fr, To: to}
			commonDiffer := false
			for i, c := range a.Cols {
				if j, ok := bpos[c.Name]; ok && b.Cols[j].Type == c.Type && fr[i] != to[j] {
					commonDiffer = true
				}
			}
			if commonDiffer {
				must[k] = d
			} else if !sameLayout {
				may[k] = d
			}
		}
	}
	return
}

func nulls(n int) []string {
	out := make([]string, n)
	for i := range out {
		out[i] = sqlrig.Null
	}
	return out
}

func (d rowDiff) render(a, b *sqlrig.Table) string {
	parts := []string{d.Type}
	if a != nil {
		if d.From == nil {
			parts = append(parts, sqlrig.Null)
			parts = append(parts, nulls(len(a.Cols))...)
		} else {
			parts = append(parts, fmt.Sprint(d.PK))
			parts = append(parts, d.From...)
		}
	}
	if b != nil {
		if d.To == nil {
			parts = append(parts, sqlrig.Null)
			parts = append(parts, nulls(len(b.Cols))...)
		} else {
			parts = append(parts, fmt.Sprint(d.PK))
			parts = append(parts, d.To...)
		}
	}
	return strings.Join(parts, "\x1f")
}

// diffSelect renders the column list matching rowDiff.render.
func diffSelect(a, b *sqlrig.Table) string {
	cols := []string{"diff_type"}
	if a != nil {
		cols = append(cols, "from_pk")
		for _, c := range a.Cols {
			cols = append(cols, "`from_"+c.Name+"`")
		}
	}
	if b != nil {
		cols = append(cols, "to_pk")
		for _, c := range b.Cols {
			cols = append(cols, "`to_"+c.Name+"`")
		}
	}
	return strings.Join(cols, ", ")
}

// compareDiff checks an observed diff row set against the model. Returns "" when consistent.
func compareDiff(got []string, a, b *sqlrig.Table) string {
	must, may := modelDiff(a, b)
	want := map[string]int64{}
	for k, d := range must {
		want[d.render(a, b)] = k
	}
	allowed := map[string]bool{}
	for _, d := range may {
		allowed[d.render(a, b)] = true
	}
	seen := map[string]int{}
	var probs []string
	for _, g := range got {
		seen[g]++
		if _, ok := want[g]; ok {
			continue
		}
		if allowed[g] {
			continue
		}
		probs = append(probs, fmt.Sprintf("unexpected diff row %q", g))
	}
	for w := range want {
		switch seen[w] {
		case 1:
		case 0:
			probs = append(probs, fmt.Sprintf("missing diff row %q", w))
		default:
			probs = append(probs, fmt.Sprintf("diff row listed %d times: %q", seen[w], w))
		}
	}
	for g, n := range seen {
		if n > 1 && allowed[g] {
			probs = append(probs, fmt.Sprintf("diff row listed %d times: %q", n, g))
		}
	}
	sort.Strings(probs)
	if len(probs) > 6 {
		probs = append(probs[:6], fmt.Sprintf("... %d more", len(probs)-6))
	}
	return strings.Join(probs, " ; ")
}

func c32(c *rig.Ctx) {
	c.Rule("seeded histories of 3-6 commits (main plus a side branch in half of them) mixing row edits with hostile string values " +
		"(quotes, backslashes, newlines, control bytes, unicode, SQL comment tokens) in varchar/text cells and the schema changes dolt_patch supports " +
		"(create/drop/rename table, add column at end or in the middle with/without default, drop column, add/drop index, set/drop default; DROP PRIMARY KEY " +
		"only for the documented warning); the model state of every table is recorded at every commit. For EVERY ordered pair (A,B) of commits: " +
		"dolt_diff(A,B,t), dolt_diff_stat, dolt_diff_summary are compared with the model row diff, and the statements of dolt_patch(A,B) are executed one by " +
		"one on a fresh branch at A whose working tables (SHOW CREATE TABLE and rows) must equal B's. dolt_diff_<t> is checked for (parent,child) pairs on main. " +
		"A pair is distinct when its (kinds of table deltas, #row diffs>0, schema-change?) signature is new and A,B differ")
	c.Assume("tables have a single BIGINT key `pk`; values are compared as the text the server sends; rows whose only difference lies in columns present on one side " +
		"only MAY or MAY NOT be listed by the diff (storage rewrite is not visible in the model); PK-changing pairs assert only the warning and the absence of data statements")
	srv, stop := startServer(c, "c32")
	defer stop()
	nh := c.Pick(40, 500)
	st := newTally()
	runParallel(nh, 4, func(i int) {
		if st.get("c32.unclassified_violations") > 12 {
			return
		}
		r := c.SubRand("c32", i)
		h := genWHist(r, fmt.Sprintf("c32_%d", i), whistOpts{MinCommits: 3, MaxCommits: 6, PKChange: true, Indexes: true, Defaults: true, Hostile: true, RenameCol: true})
		c.Case(fmt.Sprintf("c32/%d", i), map[string]any{"db": h.DB, "script": sqls(h.Steps)})
		if i < 3 {
			c.Sample(map[string]any{"script": sqls(h.Steps), "checked": "all ordered pairs of its commits"})
		}
		runC32(c, srv, h, st)
	})
	st.flush(c)
	c.Require(st.get("c32.patch_roundtrips") > 0, "no patch round trip")
	c.Require(st.get("c32.patch_data_statements") > 0 && st.get("c32.patch_schema_statements") > 0, "patches had no data or no schema statements")
	c.Require(st.get("c32.diff_rows_checked") > 0, "no diff rows compared")
	c.Require(st.get("c32.hostile_values_in_patches") > 0, "no hostile string value went through a patch statement")
	c.Require(st.get("c32.pk_change_pairs") > 0, "no PK-changing pair was generated")
}

// defaultRe matches a DEFAULT clause of a SHOW CREATE TABLE column line (string or numeric literal).
var defaultRe = regexp.MustCompile(`(?s) DEFAULT (?:'(?:[^'\\]|\\.|'')*'|[-0-9.]+)`)

// colTypeRe matches the type of a SHOW CREATE TABLE column line ("  `name` bigint" / "varchar(300)").
var colTypeRe = regexp.MustCompile("(?m)^(  `[^`]+`) [a-z]+(\\(\\d+\\))?")

func isHostile(s string) bool {
	return strings.ContainsAny(s, "\"\\\n\r\t\x01\x1a\x7f") || strings.ContainsAny(s, "é日😀") || strings.Contains(s, "''")
}

func runC32(c *rig.Ctx, srv *sqlrig.Server, h *whist, st *tally) {
	x := srv.MustOpen("")
	defer x.Close()
	rig.Must(x.Exec("create database " + h.DB))
	defer x.Exec("drop database " + h.DB)
	rig.Must(x.Exec("use " + h.DB))
	if err := runScript(x, h.Steps, h.recs); err != nil {
		c.Violation("c32/setup", "history script failed: "+err.Error(), map[string]any{"db": h.DB, "script": sqls(h.Steps)})
		return
	}
	for k, v := range h.Kinds {
		st.add("c32.gen."+k, v)
	}
	viol := func(key, what string, a, b int, extra map[string]any) {
		if !c32FindingClass[key] {
			st.inc("c32.unclassified_violations")
		}
		w := map[string]any{"db": h.DB, "script": sqls(h.Steps), "A": fmt.Sprintf("c%d=%s", a, h.Commits[a].Hash), "B": fmt.Sprintf("c%d=%s", b, h.Commits[b].Hash)}
		for k, v := range extra {
			w[k] = v
		}
		c.Violation(key, what, w)
	}
	n := len(h.Commits)
	pairNo := 0
	for a := 0; a < n; a++ {
		for b := 0; b < n; b++ {
			if a == b {
				continue
			}
			pairNo++
			c32Pair(c, x, h, a, b, pairNo, st, viol)
			if st.get("c32.unclassified_violations") > 12 {
				return
			}
		}
	}
	// dolt_diff_<t> (system table of the current branch): rows of (parent -> child) steps on main for tables whose
	// column layout did not change between parent, child and HEAD.
	mainTip := h.Tips["main"]
	head := h.Commits[mainTip].W
	for ci := mainTip; ci > 0; ci = h.Commits[ci].Parents[0] {
		p := h.Commits[ci].Parents[0]
		for _, tn := range head.S.names() {
			ta, tb := h.Commits[p].W.S[tn], h.Commits[ci].W.S[tn]
			if ta == nil || tb == nil || head.M[tn].PKDropped || layout(ta) != layout(head.S[tn]) || layout(tb) != layout(head.S[tn]) ||
				h.Commits[p].W.M[tn].ID != head.M[tn].ID || h.Commits[ci].W.M[tn].ID != head.M[tn].ID {
				continue
			}
			q := fmt.Sprintf("select %s from `dolt_diff_%s` where from_commit = '%s' and to_commit = '%s'", diffSelect(ta, tb), tn, h.Commits[p].Hash, h.Commits[ci].Hash)
			r, err := x.Query(q)
			if err != nil {
				viol("c32/diff-table/error", q+": "+err.Error(), p, ci, nil)
				continue
			}
			st.inc("c32.diff_system_table_checks")
			if d := compareDiff(r.Strings(), ta, tb); d != "" {
				viol("c32/diff-table/rows", fmt.Sprintf("dolt_diff_%s restricted to (parent,child) differs from the model row diff: %s", tn, d), p, ci, map[string]any{"query": q})
			}
		}
	}
}

func c32Pair(c *rig.Ctx, x *sqlrig.Session, h *whist, a, b, pairNo int, st *tally, viol func(string, string, int, int, map[string]any)) {
	A, B := h.Commits[a], h.Commits[b]
	st.inc("c32.pairs")
	// lineages
	ids := map[int]bool{}
	for _, m := range A.W.M {
		ids[m.ID] = true
	}
	for _, m := range B.W.M {
		ids[m.ID] = true
	}
	var sigParts []string
	pkChanged := map[string]bool{} // table names (either side) whose PK sets differ
	wantSummary := map[string]string{}
	for id := range ids {
		na, nb := A.W.byID(id), B.W.byID(id)
		var ta, tb *sqlrig.Table
		if na != "" {
			ta = A.W.S[na]
		}
		if nb != "" {
			tb = B.W.S[nb]
		}
		kind := ""
		switch {
		case ta == nil:
			kind = "added"
		case tb == nil:
			kind = "dropped"
		case na != nb:
			kind = "renamed"
		case A.W.sig(na) != B.W.sig(nb) || !tableEq(ta, tb):
			kind = "modified"
		}
		if ta != nil && tb != nil && A.W.M[na].PKDropped != B.W.M[nb].PKDropped {
			pkChanged[na], pkChanged[nb] = true, true
			kind = "pk-changed"
		}
		if kind != "" {
			sigParts = append(sigParts, kind)
			wantSummary[na+">"+nb] = kind
		}
		// ---- row diffs through dolt_diff() / dolt_diff_stat(): same name on both sides (or absent on one), PK intact
		if kind == "renamed" || kind == "pk-changed" || (ta != nil && A.W.M[na].PKDropped) || (tb != nil && B.W.M[nb].PKDropped) {
			continue
		}
		name := na
		if name == "" {
			name = nb
		}
		q := fmt.Sprintf("select %s from dolt_diff('%s','%s','%s')", diffSelect(ta, tb), A.Hash, B.Hash, name)
		r, err := x.Query(q)
		if err != nil {
			viol("c32/diff/error", q+": "+err.Error(), a, b, nil)
			continue
		}
		st.add("c32.diff_rows_checked", len(r.Data))
		st.inc("c32.diff_calls")
		if d := compareDiff(r.Strings(), ta, tb); d != "" {
			viol("c32/diff/rows", fmt.Sprintf("dolt_diff(A,B,'%s') differs from the model row diff: %s", name, d), a, b, map[string]any{"query": q})
		}
		if ta != nil && tb != nil && layout(ta) == layout(tb) {
			must, _ := modelDiff(ta, tb)
			var ad, rm, md int
			for _, d := range must {
				switch d.Type {
				case "added":
					ad++
				case "removed":
					rm++
				default:
					md++
				}
			}
			q := fmt.Sprintf("select rows_added, rows_deleted, rows_modified from dolt_diff_stat('%s','%s','%s')", A.Hash, B.Hash, name)
			r, err := x.Query(q)
			if err != nil {
				viol("c32/diff-stat/error", q+": "+err.Error(), a, b, nil)
			} else {
				got := "0\x1f0\x1f0"
				if len(r.Data) == 1 {
					got = strings.Join(r.Data[0], "\x1f")
				} else if len(r.Data) > 1 {
					got = fmt.Sprint(r.Data)
				}
				st.inc("c32.diff_stat_checks")
				if want := fmt.Sprintf("%d\x1f%d\x1f%d", ad, rm, md); got != want {
					viol("c32/diff-stat/counts", fmt.Sprintf("dolt_diff_stat(A,B,'%s') rows added/deleted/modified = %q, model says %q", name, got, want), a, b, map[string]any{"query": q})
				}
			}
		}
	}
	sort.Strings(sigParts)
	// ---- dolt_diff_summary(A,B)
	if r, err := x.Query(fmt.Sprintf("select from_table_name, to_table_name, diff_type, data_change, schema_change from dolt_diff_summary('%s','%s')", A.Hash, B.Hash)); err != nil {
		viol("c32/diff-summary/error", err.Error(), a, b, nil)
	} else {
		st.inc("c32.diff_summary_checks")
		got := map[string][]string{}
		for _, row := range r.Data {
			got[row[0]+">"+row[1]] = row
		}
		var probs []string
		for k, kind := range wantSummary {
			row, ok := got[k]
			na, nb, _ := strings.Cut(k, ">")
			if kind == "renamed" || kind == "pk-changed" {
				// rename detection is a heuristic: accept "renamed" or a dropped+added pair, only require that the change is listed
				if !ok && (got[na+">"] == nil || got[">"+nb] == nil) && kind == "renamed" {
					probs = append(probs, fmt.Sprintf("renamed table %s -> %s is not listed", na, nb))
				}
				delete(got, k)
				delete(got, na+">")
				delete(got, ">"+nb)
				continue
			}
			if !ok {
				probs = append(probs, fmt.Sprintf("%s table %q/%q is not listed", kind, na, nb))
				continue
			}
			delete(got, k)
			if row[2] != kind {
				probs = append(probs, fmt.Sprintf("table %q/%q listed as %s, model says %s", na, nb, row[2], kind))
			}
			if kind == "modified" && !A.W.M[na].PKDropped && layout(A.W.S[na]) == layout(B.W.S[nb]) {
				dc := "0"
				if !tableEq(A.W.S[na], B.W.S[nb]) {
					dc = "1"
				}
				sc := "0"
				if A.W.sig(na) != B.W.sig(nb) {
					sc = "1"
				}
				if row[3] != dc || row[4] != sc {
					probs = append(probs, fmt.Sprintf("table %q: data_change=%s schema_change=%s, model says %s/%s", na, row[3], row[4], dc, sc))
				}
			}
		}
		for k := range got {
			probs = append(probs, fmt.Sprintf("table %q listed although the model has no change for it", k))
		}
		if len(probs) > 0 {
			sort.Strings(probs)
			viol("c32/diff-summary", "dolt_diff_summary(A,B) differs from the model: "+strings.Join(probs, " ; "), a, b, map[string]any{"rows": r.Data})
		}
	}
	// ---- patch round trip
	br := fmt.Sprintf("p%d", pairNo)
	if err := x.Exec(fmt.Sprintf("call dolt_checkout('-b','%s','%s')", br, A.Hash)); err != nil {
		viol("c32/setup", "cannot create patch branch: "+err.Error(), a, b, nil)
		return
	}
	defer func() {
		x.Exec("call dolt_checkout('main')")
		x.Exec("call dolt_branch('-D','" + br + "')")
	}()
	pq := fmt.Sprintf("select statement, table_name, diff_type from dolt_patch('%s','%s') order by statement_order", A.Hash, B.Hash)
	pr, err := x.Query(pq)
	if err != nil {
		key := "c32/patch/error"
		if sqlrig.IsInternalError(err) {
			key = "c32/patch/internal-error"
		}
		viol(key, "dolt_patch(A,B) failed: "+err.Error(), a, b, nil)
		return
	}
	warn, _ := x.Query("show warnings")
	var stmts, stmtTable []string
	for _, row := range pr.Data {
		stmts = append(stmts, row[0])
		stmtTable = append(stmtTable, row[1])
		if row[2] == "data" {
			st.inc("c32.patch_data_statements")
			if isHostile(row[0]) {
				st.inc("c32.hostile_values_in_patches")
			}
			if pkChanged[row[1]] {
				viol("c32/patch/pk-change-data", fmt.Sprintf("dolt_patch emitted a data statement for table %s whose primary key sets differ between A and B", row[1]), a, b, map[string]any{"statement": row[0]})
			}
		} else {
			st.inc("c32.patch_schema_statements")
		}
	}
	if len(pkChanged) > 0 {
		st.inc("c32.pk_change_pairs")
		for n := range pkChanged {
			if B.W.S[n] == nil || A.W.S[n] == nil {
				continue
			}
			found := false
			for _, wr := range warn.Data {
				if strings.Contains(strings.Join(wr, " "), "Primary key sets differ between revisions for table '"+n+"'") {
					found = true
				}
			}
			if !found {
				viol("c32/patch/pk-change-warning", fmt.Sprintf("no 'Primary key sets differ' warning for table %s", n), a, b, map[string]any{"warnings": warn.Data})
			}
		}
	}
	failedTables := map[string]bool{}
	for i, s := range stmts {
		if err := x.Exec(s); err != nil {
			if pkChanged[stmtTable[i]] {
				st.inc("c32.pk_change_statement_errors_ignored") // PK-changing pairs assert only the warning + skipped data diff
				continue
			}
			key := "c32/patch-roundtrip/statement-error"
			switch {
			case strings.Contains(err.Error(), "Duplicate key name"):
				// DiffSchIndexes matches indexes by their column tags: with two indexes over the same column the patch re-adds an existing index
				key += "/index-same-columns"
			case strings.Contains(err.Error(), "table not found") && strings.Contains(s, " DROP INDEX "):
				// after RENAME TABLE a TO b the patch addresses the dropped index through the OLD table name
				key += "/drop-index-uses-old-table-name"
			case strings.Contains(err.Error(), "can't drop") && strings.Contains(s, " DROP INDEX "):
				// the patch drops a column before the index over it: the index is gone when its DROP INDEX runs
				key += "/drop-index-after-drop-column"
			}
			viol(key, fmt.Sprintf("statement %d of dolt_patch(A,B) does not apply on A: %v", i+1, err), a, b, map[string]any{"statement": s, "patch": stmts})
			if !c32FindingClass[key] {
				return
			}
			failedTables[stmtTable[i]] = true // already reported; its end state is not compared again
		}
	}
	st.inc("c32.patch_roundtrips")
	if len(sigParts) > 0 {
		c.Distinct("pair/" + strings.Join(sigParts, ","))
	}
	// compare the working root with B
	tabs, err := x.Query("show tables")
	if err != nil {
		viol("c32/patch-roundtrip/error", err.Error(), a, b, nil)
		return
	}
	var got []string
	for _, row := range tabs.Data {
		got = append(got, row[0])
	}
	sort.Strings(got)
	if g, w := strings.Join(got, ","), strings.Join(B.W.S.names(), ","); g != w {
		viol("c32/patch-roundtrip/tables", fmt.Sprintf("after replaying the patch the tables are [%s], B has [%s]", g, w), a, b, map[string]any{"patch": stmts})
		return
	}
	for _, tn := range B.W.S.names() {
		if pkChanged[tn] || failedTables[tn] {
			continue
		}
		tb := B.W.S[tn]
		// rows by column name (so that a column-order difference is reported once, as a schema difference)
		cols := []string{"pk"}
		for _, col := range tb.Cols {
			cols = append(cols, "`"+col.Name+"`")
		}
		r, err := x.Query(fmt.Sprintf("select %s from `%s`", strings.Join(cols, ", "), tn))
		if err != nil {
			viol("c32/patch-roundtrip/rows-error", fmt.Sprintf("table %s: %v", tn, err), a, b, map[string]any{"patch": stmts})
		} else if g, w := strings.Join(r.Sorted(), "\n"), strings.Join(tb.SortedRows(), "\n"); g != w {
			viol(classifyRowMismatch(r, tb, B.W.M[tn], A.W.S[A.W.byID(B.W.M[tn].ID)], stmts), fmt.Sprintf("table %s after replaying dolt_patch(A,B) on A differs from B: got %q want %q", tn, r.Sorted(), tb.SortedRows()), a, b, map[string]any{"patch": stmts})
		}
		sw, err1 := x.Query("show create table `" + tn + "`")
		sb, err2 := x.Query(fmt.Sprintf("show create table `%s/%s`.`%s`", h.DB, B.Hash, tn))
		if err1 != nil || err2 != nil || len(sw.Data) != 1 || len(sb.Data) != 1 {
			viol("c32/patch-roundtrip/schema-error", fmt.Sprintf("table %s: %v %v", tn, err1, err2), a, b, nil)
			continue
		}
		if g, w := sw.Data[0][1], sb.Data[0][1]; g != w {
			key := "c32/patch-roundtrip/schema"
			gl, wl := strings.Split(g, "\n"), strings.Split(w, "\n")
			norm := func(l []string) string {
				out := make([]string, len(l))
				for i, s := range l {
					out[i] = strings.TrimSuffix(strings.TrimSpace(s), ",")
				}
				sort.Strings(out)
				return strings.Join(out, "\n")
			}
			gd, wd := defaultRe.ReplaceAllString(g, ""), defaultRe.ReplaceAllString(w, "")
			gt, wt := colTypeRe.ReplaceAllString(gd, "$1 T"), colTypeRe.ReplaceAllString(wd, "$1 T")
			switch {
			case norm(gl) == norm(wl):
				key = "c32/patch-roundtrip/schema/column-order"
			case gd == wd:
				key = "c32/patch-roundtrip/schema/column-default"
			case norm(strings.Split(gd, "\n")) == norm(strings.Split(wd, "\n")):
				key = "c32/patch-roundtrip/schema/column-order+default"
			case colTypeRe.ReplaceAllString(g, "$1 T") == colTypeRe.ReplaceAllString(w, "$1 T"):
				key = "c32/patch-roundtrip/schema/column-type" // same columns, names, defaults, keys - only a column's TYPE differs
			case gt == wt:
				key = "c32/patch-roundtrip/schema/column-type+default"
			case norm(strings.Split(gt, "\n")) == norm(strings.Split(wt, "\n")):
				key = "c32/patch-roundtrip/schema/column-type+order"
			}
			viol(key, fmt.Sprintf("SHOW CREATE TABLE %s after replaying dolt_patch(A,B) on A differs from B's", tn), a, b, map[string]any{"got": g, "want": w, "patch": stmts})
		}
		st.inc("c32.roundtrip_tables_compared")
	}
}

// classifyRowMismatch names the class of a row mismatch after a patch replay: when every differing cell is "B holds NULL,
// the replayed table holds the column's DEFAULT" the class is rows/null-vs-added-default (ADD COLUMN ... DEFAULT fills the
// existing rows and the patch has no UPDATE ... = NULL for them); everything else is the generic class.
func classifyRowMismatch(got *sqlrig.Rows, tb *sqlrig.Table, m *tmeta, ta *sqlrig.Table, patch []string) string {
	const generic = "c32/patch-roundtrip/rows"
	if len(got.Data) != len(tb.Rows) {
		return generic
	}
	inA := map[string]bool{}
	if ta != nil {
		for _, c := range ta.Cols {
			inA[c.Name] = true
		}
	}
	differ, addedDefault, renamedNull, unfilled := 0, 0, 0, 0
	hasUpdate := func(pk int64) bool {
		for _, st := range patch {
			if strings.HasPrefix(st, "UPDATE `"+tb.Name+"` ") && strings.HasSuffix(st, fmt.Sprintf(" WHERE `pk`=%d;", pk)) {
				return true
			}
		}
		return false
	}
	added := func(col string) bool {
		for _, st := range patch {
			if strings.HasPrefix(st, "ALTER TABLE `"+tb.Name+"` ADD `"+col+"` ") {
				return true
			}
		}
		return false
	}
	for _, row := range got.Data {
		var pk int64
		if _, err := fmt.Sscan(row[0], &pk); err != nil {
			return generic
		}
		want, ok := tb.Rows[pk]
		if !ok || len(want) != len(row)-1 {
			return generic
		}
		for i, w := range want {
			g := row[i+1]
			if g == w {
				continue
			}
			differ++
			col := tb.Cols[i].Name
			switch {
			case w != sqlrig.Null && g == sqlrig.Null && ta != nil && !inA[col] && ta.Rows[pk] != nil && added(col) && !hasUpdate(pk):
				// the patch re-creates the column (DROP old / ADD new: different column for dolt) but the stored rows of A and B are
				// byte-identical, so the row is not in the diff and gets no UPDATE: the re-added column stays NULL
				unfilled++
			case w != sqlrig.Null:
				return generic
			case m.Defaults[col] != "" && sqlrig.SQLLit(g) == m.Defaults[col]:
				addedDefault++
			case ta != nil && !inA[col] && ta.Rows[pk] != nil:
				// B holds NULL in a column that has another name in A and the row exists in A: the patch renames the column but
				// has no UPDATE ... = NULL (the cell change is computed by column NAME, so from-value "absent" == to-value NULL)
				renamedNull++
			default:
				return generic
			}
		}
	}
	switch {
	case differ == 0:
		return generic
	case unfilled == differ:
		return generic + "/unfilled-readded-column"
	case unfilled > 0:
		return generic + "/unfilled-readded-column+other-null-class"
	case renamedNull == 0:
		return generic + "/null-vs-added-default"
	case addedDefault == 0:
		return generic + "/null-in-renamed-column"
	}
	return generic + "/null-in-renamed-column+added-default"
}

// c32FindingClass lists the violation classes that are precise enough to be judged (and listed as known findings)
// on their own; they do not count towards the early cut-off of a run, so that the rest of the exploration still happens.
var c32FindingClass = map[string]bool{
	"c32/patch-roundtrip/schema/column-order":                            true,
	"c32/patch-roundtrip/schema/column-default":                          true,
	"c32/patch-roundtrip/schema/column-order+default":                    true,
	"c32/patch-roundtrip/rows/null-vs-added-default":                     true,
	"c32/patch-roundtrip/statement-error/index-same-columns":             true,
	"c32/patch-roundtrip/statement-error/drop-index-after-drop-column":   true,
	"c32/patch-roundtrip/statement-error/drop-index-uses-old-table-name": true,
	// across a RENAME COLUMN the patch has no UPDATE for a cell that became NULL (cell changes are computed by column name)
	"c32/patch-roundtrip/rows/null-in-renamed-column":               true,
	"c32/patch-roundtrip/rows/null-in-renamed-column+added-default": true,
	// DROP old + ADD new column while the stored rows are byte-identical: existing rows get no UPDATE for the new column
	"c32/patch-roundtrip/rows/unfilled-readded-column":                  true,
	"c32/patch-roundtrip/rows/unfilled-readded-column+other-null-class": true,
}

// columnDistinct reports whether the non-NULL values of a column are pairwise distinct (a UNIQUE index can be built).
func columnDistinct(t *sqlrig.Table, col string) bool {
	for i, c := range t.Cols {
		if c.Name != col {
			continue
		}
		seen := map[string]bool{}
		for _, row := range t.Rows {
			if row[i] == sqlrig.Null {
				continue
			}
			if seen[row[i]] {
				return false
			}
			seen[row[i]] = true
		}
	}
	return true
}
