# Reproduction of the dolt_patch round-trip defects found by C32 (run: /verif/.build/vvc sql <this file>)
# each 'select statement from dolt_patch' shows the defective patch described in the commit message before it
create database d
use d
create table t (pk bigint primary key, c0 int, c1 int)
insert into t values (1,1,1),(2,2,2)
call dolt_commit('-Am','A')
alter table t alter column c1 set default 7
call dolt_commit('-Am','B: default changed')
select statement from dolt_patch('HEAD~1','HEAD')
alter table t drop column c0
call dolt_commit('-Am','C: c0 dropped')
select statement from dolt_patch('HEAD','HEAD~1')
alter table t add column c2 int default 5
update t set c2 = NULL where pk = 1
call dolt_commit('-Am','D: c2 added with default, row 1 holds NULL')
select statement from dolt_patch('HEAD~1','HEAD')
create index i0 on t (c1)
call dolt_commit('-Am','E: i0')
create index i1 on t (c1)
call dolt_commit('-Am','F: second index over the same column')
select statement from dolt_patch('HEAD','HEAD~1')
alter table t drop index i1
call dolt_commit('-Am','G')
alter table t drop column c1
call dolt_commit('-Am','H: c1 and its index i0 gone')
select statement from dolt_patch('HEAD~1','HEAD')
create index i2 on t (c2)
call dolt_commit('-Am','I')
rename table t to u
alter table u drop index i2
call dolt_commit('-Am','J: renamed and index dropped')
select statement from dolt_patch('HEAD~1','HEAD')
