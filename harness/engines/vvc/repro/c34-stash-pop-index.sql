# C34: stash push; pop does not restore the staged contents of a table that exists in HEAD (t: staged change comes back unstaged)
create database d
use d
create table t (pk bigint primary key, c0 int, c1 varchar(40))
create table u (pk bigint primary key, c0 int)
insert into t values (1,1,'a'),(2,2,'b'),(3,3,'c')
insert into u values (1,1)
call dolt_commit('-Am','c0')
update t set c0 = 10 where pk = 1
call dolt_add('t')
update t set c1 = 'zz' where pk = 2
create table n (pk bigint primary key)
insert into n values (7)
call dolt_add('n')
create table w (pk bigint primary key)
drop table u
select * from dolt_status
select * from t as of 'STAGED'
call dolt_stash('push','s1')
select * from dolt_status
select * from dolt_stashes
select * from t
call dolt_stash('pop','s1')
select * from dolt_status
select * from t as of 'STAGED'
select * from t
select * from dolt_stashes
