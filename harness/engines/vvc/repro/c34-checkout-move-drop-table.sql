# C34: dolt_checkout('--move', b) succeeds but an uncommitted DROP TABLE is neither carried to b nor kept on the original branch
create database d
use d
create table t (pk bigint primary key, c int)
create table u (pk bigint primary key, c int)
insert into t values (1,1)
insert into u values (1,1)
call dolt_commit('-Am','c0')
call dolt_branch('other')
drop table t
select * from dolt_status
call dolt_checkout('--move','other')
select active_branch()
select * from dolt_status
show tables
select * from `d/main`.dolt_status
