# C32: dolt_patch across a RENAME COLUMN drops the change of a cell that became NULL in the renamed column
# expected patch: RENAME COLUMN c1 TO r1; UPDATE t SET r1=NULL WHERE pk=1;  actual: only the RENAME (row 1 keeps 'old' after replay)
create database d
use d
create table t (pk bigint primary key, c0 int, c1 varchar(20))
insert into t values (1, 1, 'old'), (2, 2, 'keep')
call dolt_commit('-Am','A')
alter table t rename column c1 to r1
update t set r1 = NULL where pk = 1
call dolt_commit('-Am','B')
select statement from dolt_patch('HEAD~1','HEAD')
select * from dolt_diff('HEAD~1','HEAD','t')
