# C31/(c): dolt_revert allows a dirty working set that is disjoint from the reverted commit, but after a conflict stop
# dolt_revert('--abort') resets working and staged to the pre-revert HEAD root (AbortRevert): the uncommitted edit of t1 and the new table zz are gone
create database d
use d
create table t0 (pk bigint primary key, c0 int)
create table t1 (pk bigint primary key, c0 int)
insert into t0 values (1,1)
insert into t1 values (1,1)
call dolt_commit('-Am','c0')
update t0 set c0 = 10 where pk = 1
call dolt_commit('-Am','c1')
update t0 set c0 = 20 where pk = 1
call dolt_commit('-Am','c2')
insert into t1 values (5,5)
create table zz (pk bigint primary key)
select table_name, staged, status from dolt_status
set @@dolt_allow_commit_conflicts = 1
call dolt_revert('HEAD~1')
select table_name, staged, status from dolt_status
call dolt_revert('--abort')
select table_name, staged, status from dolt_status
select * from t1
show tables
