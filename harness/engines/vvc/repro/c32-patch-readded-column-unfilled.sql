# C32: when a column of A and a column of B are different columns for dolt (different tags) but the stored rows are byte-identical,
# dolt_patch(A,B) emits DROP old + ADD new and no UPDATE for the existing rows: after replay row 0 has r2 = NULL instead of 1002
create database d
use d
create table t (pk bigint primary key, c0 int, c1 int)
insert into t values (0, 5, 1002)
call dolt_commit('-Am','base')
call dolt_branch('br')
alter table t modify column c1 bigint
call dolt_commit('-Am','A: main widens c1')
call dolt_checkout('br')
alter table t change column c1 r2 bigint
call dolt_commit('-Am','B: br renames and widens c1 -> r2')
select * from t
select statement from dolt_patch('main','br')
select * from dolt_diff('main','br','t')
