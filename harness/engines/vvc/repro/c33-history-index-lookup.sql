# C33: an index-assisted (pk =) read of dolt_history_<t> returns the value of ANOTHER column for commits whose schema differs from the current one
# expected for the older commit: b = 'b0' (as the full scan and the commit_hash filter return); actual: 'a0'
create database d
use d
create table t (pk bigint primary key, a varchar(20), b varchar(20))
insert into t values (0, 'a0', 'b0'), (1, 'a1', 'b1')
call dolt_commit('-Am','c0')
alter table t drop column a
insert into t values (2, 'b2')
call dolt_commit('-Am','c1')
select pk, b, commit_hash from dolt_history_t
select pk, b, commit_hash from dolt_history_t where pk = 0
select * from dolt_history_t where pk = 0
select pk, b from dolt_history_t where pk = 0 and commit_hash = hashof('HEAD~1')
select pk, b from dolt_history_t where commit_hash = hashof('HEAD~1')
