package vvc

import (
	"fmt"
	"math/rand"
	"sort"
	"strings"

	"verif/rig"
	"verif/sqlrig"
)

// ---------------------------------------------------------------------------------------------------------
// C34  Stash, reset and checkout restore exactly what they promise
// ---------------------------------------------------------------------------------------------------------
//
// The program (setup + a sequence of <= 8 steps) is generated off-line from a model that predicts what every
// procedure does, and is logged before it runs. The ORACLE does not depend on those predictions: around every
// operation under test the real (HEAD, staged, working) contents are observed through SQL and the relation the
// property states between the observation before and after is asserted. Contents of commits come from the recorded
// model (set-up commits) or from the staged contents observed immediately before the commit was made.

// tabs is an observed or recorded root: table -> sorted rows (absent table = no key).
type tabs map[string][]string

func snapTabs(s snap) tabs {
	t := tabs{}
	for n, tb := range s {
		t[n] = tb.SortedRows()
	}
	return t
}

func (t tabs) get(n string) string {
	r, ok := t[n]
	if !ok {
		return "<absent>"
	}
	return "[" + strings.Join(r, " | ") + "]"
}

func tabsEq(a, b tabs) bool { return len(tabsDiff(a, b)) == 0 }

// tabsDiff lists the tables whose contents (or presence) differ.
func tabsDiff(a, b tabs) []string {
	var out []string
	for n := range a {
		if a.get(n) != b.get(n) {
			out = append(out, n)
		}
	}
	for n := range b {
		if _, ok := a[n]; !ok {
			out = append(out, n)
		}
	}
	sort.Strings(out)
	return out
}

// obs is one observation of the session's branch.
type obs struct {
	Branch, Head string
	W, S         tabs
	Stashes      []string
}

func observe(x *sqlrig.Session) (*obs, error) {
	o := &obs{W: tabs{}, S: tabs{}}
	var err error
	if o.Branch, err = x.Scalar("select active_branch()"); err != nil {
		return nil, err
	}
	if o.Head, err = x.Scalar("select hashof('HEAD')"); err != nil {
		return nil, err
	}
	for _, part := range []struct {
		show, asof string
		dst        tabs
	}{{"show tables", "", o.W}, {"show tables as of 'STAGED'", " as of 'STAGED'", o.S}} {
		r, err := x.Query(part.show)
		if err != nil {
			return nil, err
		}
		for _, row := range r.Data {
			rows, err := x.Query("select * from `" + row[0] + "`" + part.asof)
			if err != nil {
				return nil, fmt.Errorf("%s %s: %w", part.show, row[0], err)
			}
			s := rows.Sorted()
			if s == nil {
				s = []string{}
			}
			part.dst[row[0]] = s
		}
	}
	st, err := x.Query("select stash_id, branch, hash from dolt_stashes where name = 'st'")
	if err != nil {
		return nil, err
	}
	o.Stashes = st.Strings()
	return o, nil
}

// ---- the off-line model used to GENERATE programs -----------------------------------------------------------

type bstate struct {
	head            int
	staged, working snap
}

type stashEntry struct {
	head    int
	branch  string
	tables  map[string]*sqlrig.Table // stashed content per table (nil = dropped)
	toStage []string
}

type c34Model struct {
	commits []*commitRec
	br      map[string]*bstate
	cur     string
	stash   []stashEntry // index 0 = stash@{0}
}

func (m *c34Model) b() *bstate { return m.br[m.cur] }

func (m *c34Model) headSnap(b *bstate) snap { return m.commits[b.head].Snap }

// c34Step is one step of the generated program.
type c34Step struct {
	Pre    []string // edits (errors are tolerated: the model may have drifted where the statement is silent)
	Op     string
	SQL    []string // the operation under test (one or two calls)
	Table  string
	Ref    int // target commit of a reset (index), -1 = none
	Branch string
	Idx    int // stash index
	Commit int // for Op == "commit": the index of the commit it creates
}

type c34Prog struct {
	DB      string
	Setup   []step
	Commits []*commitRec
	Steps   []c34Step
	Schemas map[string]*sqlrig.Table
}

func (p *c34Prog) payload() map[string]any {
	var steps []map[string]any
	for _, s := range p.Steps {
		steps = append(steps, map[string]any{"edits": s.Pre, "op": s.Op, "sql": s.SQL})
	}
	return map[string]any{"db": p.DB, "setup": sqls(p.Setup), "steps": steps}
}

func genC34(r *rand.Rand, db string) *c34Prog {
	g := sqlrig.NewGen(r, "v")
	p := &c34Prog{DB: db, Schemas: map[string]*sqlrig.Table{}}
	m := &c34Model{br: map[string]*bstate{}, cur: "main"}
	add := func(sql string) { p.Setup = append(p.Setup, step{SQL: sql, Commit: -1}) }
	pool := 5
	cur := snap{}
	nt := 1 + r.Intn(3)
	for i := 0; i < nt; i++ {
		t := g.NewTable(fmt.Sprintf("t%d", i), 1+r.Intn(2))
		p.Schemas[t.Name] = t.Clone()
		cur[t.Name] = t
		add(t.CreateSQL())
		for k := 0; k < pool; k++ {
			if r.Intn(3) != 0 {
				add(g.InsertSQL(t, int64(k)))
			}
		}
	}
	commit := func(parent int) int {
		idx := len(m.commits)
		m.commits = append(m.commits, &commitRec{Idx: idx, Parents: []int{parent}, Snap: cur.clone(), Msg: fmt.Sprintf("c%d", idx)})
		p.Setup = append(p.Setup, step{SQL: fmt.Sprintf("call dolt_commit('-Am','c%d')", idx), Commit: idx})
		return idx
	}
	names := func(s snap) []string { return s.names() }
	dmls := func(s snap, only []string) {
		for k := 1 + r.Intn(3); k > 0; k-- {
			n := only[r.Intn(len(only))]
			add(g.DML(s[n], pool))
		}
		add(g.InsertSQL(s[only[0]], int64(100+len(m.commits)))) // never an empty commit
	}
	h := commit(-1)
	dmls(cur, names(cur))
	h = commit(h)
	forkAt := r.Intn(2)
	add(fmt.Sprintf("call dolt_branch('other','{c%d}')", forkAt))
	if r.Intn(2) == 0 {
		dmls(cur, names(cur))
		h = commit(h)
	}
	m.br["main"] = &bstate{head: h, staged: cur.clone(), working: cur.clone()}
	// the other branch diverges on a subset of the tables
	add("call dolt_checkout('other')")
	cur = m.commits[forkAt].Snap.clone()
	all := names(cur)
	r.Shuffle(len(all), func(i, j int) { all[i], all[j] = all[j], all[i] })
	div := all[:1+r.Intn(len(all))]
	if r.Intn(4) == 0 {
		div = all[:1]
	}
	dmls(cur, div)
	oh := commit(forkAt)
	m.br["other"] = &bstate{head: oh, staged: cur.clone(), working: cur.clone()}
	add("call dolt_checkout('main')")
	p.Commits = m.commits

	// ---- the sequence
	newTab := 0
	nsteps := 3 + r.Intn(6)
	for len(p.Steps) < nsteps {
		b := m.b()
		st := c34Step{Ref: -1, Commit: -1}
		edit := func(sql string) { st.Pre = append(st.Pre, sql) }
		stage := func(n string) {
			edit("call dolt_add('" + n + "')")
			if t, ok := b.working[n]; ok {
				b.staged[n] = t.Clone()
			} else {
				delete(b.staged, n)
			}
		}
		// dirty edits: per table a combination of {staged, unstaged} x {row change, table add/drop}
		if r.Intn(10) < 8 {
			for _, n := range b.working.names() {
				if r.Intn(2) == 0 {
					continue
				}
				if r.Intn(2) == 0 { // staged row change
					edit(g.DML(b.working[n], pool))
					stage(n)
				}
				if r.Intn(2) == 0 { // unstaged row change (possibly on top of a staged one)
					edit(g.DML(b.working[n], pool))
				}
				if r.Intn(8) == 0 { // table drop, staged or not
					delete(b.working, n)
					edit("drop table `" + n + "`")
					if r.Intn(2) == 0 {
						stage(n)
					}
				}
			}
			if r.Intn(3) == 0 { // table add, staged or not
				t := g.NewTable(fmt.Sprintf("n%d", newTab), 1)
				newTab++
				p.Schemas[t.Name] = t.Clone()
				b.working[t.Name] = t
				edit(t.CreateSQL())
				edit(g.InsertSQL(t, 0))
				edit(g.InsertSQL(t, 1))
				if r.Intn(2) == 0 {
					stage(t.Name)
				}
			}
		}
		otherBr := "other"
		if m.cur == "other" {
			otherBr = "main"
		}
		tracked := func(n string) bool {
			_, inHead := m.headSnap(b)[n]
			_, inStaged := b.staged[n]
			return inHead || inStaged
		}
		stashable := func() bool {
			if !snapEq(b.staged, m.headSnap(b)) {
				return true
			}
			for n := range b.staged {
				if !tableEq(b.staged[n], b.working[n]) {
					return true
				}
			}
			return false
		}
		doPush := func() stashEntry {
			e := stashEntry{head: b.head, branch: m.cur, tables: map[string]*sqlrig.Table{}}
			hs := m.headSnap(b)
			seen := map[string]bool{}
			for _, s := range []snap{hs, b.staged} {
				for n := range s {
					seen[n] = true
				}
			}
			for n := range seen {
				if _, inStaged := b.staged[n]; inStaged || hs[n] != nil {
					// StageModifiedAndDeletedTables: working content of every tracked table is what gets stashed
					w := b.working[n]
					if _, stagedHas := b.staged[n]; !stagedHas {
						w = nil // staged drop
					}
					if !tableEq(w, hs[n]) {
						e.tables[n] = w.Clone()
						if hs[n] == nil {
							e.toStage = append(e.toStage, n)
						}
					}
				}
			}
			b.staged = hs.clone()
			for n := range e.tables {
				if hs[n] == nil {
					delete(b.working, n)
				} else {
					b.working[n] = hs[n].Clone()
				}
			}
			return e
		}
		doPop := func(e stashEntry) {
			for n, t := range e.tables {
				if t == nil {
					delete(b.working, n)
				} else {
					b.working[n] = t.Clone()
				}
			}
			for _, n := range e.toStage {
				if t := b.working[n]; t != nil {
					b.staged[n] = t.Clone()
				}
			}
		}
		resolveRef := func() (string, int) { // a ref for reset: HEAD~1, the other branch, a hash
			switch r.Intn(4) {
			case 0:
				if par := m.commits[b.head].Parents[0]; par >= 0 {
					return "HEAD~1", par
				}
			case 1:
				return otherBr, m.br[otherBr].head
			case 2:
				ci := r.Intn(len(m.commits))
				return fmt.Sprintf("{c%d}", ci), ci
			}
			return "HEAD", b.head
		}
		switch k := r.Intn(20); {
		case k < 4 && stashable(): // stash; pop
			st.Op = "stash-pop"
			st.SQL = []string{"call dolt_stash('push','st')", "call dolt_stash('pop','st')"}
			// net effect per dolt: working restored, staged = HEAD + re-staged new tables
			e := doPush()
			doPop(e)
		case k < 6 && stashable():
			st.Op = "stash-push"
			st.SQL = []string{"call dolt_stash('push','st')"}
			m.stash = append([]stashEntry{doPush()}, m.stash...)
		case k < 8 && len(m.stash) > 0:
			st.Op = "stash-pop-idx"
			st.Idx = r.Intn(len(m.stash))
			st.SQL = []string{fmt.Sprintf("call dolt_stash('pop','st','stash@{%d}')", st.Idx)}
			doPop(m.stash[st.Idx])
			m.stash = append(append([]stashEntry(nil), m.stash[:st.Idx]...), m.stash[st.Idx+1:]...)
		case k == 8 && len(m.stash) > 0:
			st.Op = "stash-drop"
			st.Idx = r.Intn(len(m.stash))
			st.SQL = []string{fmt.Sprintf("call dolt_stash('drop','st','stash@{%d}')", st.Idx)}
			m.stash = append(append([]stashEntry(nil), m.stash[:st.Idx]...), m.stash[st.Idx+1:]...)
		case k == 9 && len(m.stash) > 1:
			st.Op = "stash-clear"
			st.SQL = []string{"call dolt_stash('clear','st')"}
			m.stash = nil
		case k < 12: // reset --hard [X]
			st.Op = "reset-hard"
			spec, ci := resolveRef()
			if spec == "HEAD" && r.Intn(2) == 0 {
				st.SQL = []string{"call dolt_reset('--hard')"}
			} else {
				st.SQL = []string{"call dolt_reset('--hard','" + spec + "')"}
			}
			st.Ref = ci
			target := m.commits[ci].Snap
			nw := target.clone()
			for n, t := range b.working { // untracked tables survive unless the target has the name
				if !tracked(n) && target[n] == nil {
					nw[n] = t
				}
			}
			b.head, b.staged, b.working = ci, target.clone(), nw
		case k < 14: // reset (soft forms on tables)
			switch r.Intn(4) {
			case 0:
				st.Op, st.SQL = "reset-all", []string{"call dolt_reset()"}
				b.staged = m.headSnap(b).clone()
			case 1:
				st.Op, st.SQL = "reset-all", []string{"call dolt_reset('.')"}
				b.staged = m.headSnap(b).clone()
			case 2:
				st.Op, st.SQL = "reset-soft-noref", []string{"call dolt_reset('--soft')"}
			default:
				var cands []string
				for n := range b.staged {
					cands = append(cands, n)
				}
				for n := range m.headSnap(b) {
					if _, ok := b.staged[n]; !ok {
						cands = append(cands, n)
					}
				}
				sort.Strings(cands)
				if len(cands) == 0 {
					continue
				}
				n := cands[r.Intn(len(cands))]
				st.Op, st.Table, st.SQL = "reset-table", n, []string{"call dolt_reset('" + n + "')"}
				if t := m.headSnap(b)[n]; t != nil {
					b.staged[n] = t.Clone()
				} else {
					delete(b.staged, n)
				}
			}
		case k == 14: // ref-taking soft / mixed forms
			spec, ci := resolveRef()
			st.Ref = ci
			if r.Intn(2) == 0 {
				st.Op, st.SQL = "reset-soft-ref", []string{"call dolt_reset('--soft','" + spec + "')"}
				b.head = ci
			} else {
				if spec == otherBr { // a bare name could be taken for a table: use the hash form
					spec = fmt.Sprintf("{c%d}", ci)
				}
				st.Op, st.SQL = "reset-mixed-ref", []string{"call dolt_reset('" + spec + "')"}
				b.head, b.staged = ci, m.commits[ci].Snap.clone()
			}
		case k < 17: // plain SQL checkout: only switches
			st.Op, st.Branch = "checkout", otherBr
			st.SQL = []string{"call dolt_checkout('" + otherBr + "')"}
			m.cur = otherBr
		case k < 19: // checkout --move: carries the working set over when nothing is lost
			st.Op, st.Branch = "checkout-move", otherBr
			st.SQL = []string{"call dolt_checkout('--move','" + otherBr + "')"}
			d := m.br[otherBr]
			srcHead, dstHead := m.headSnap(b), m.headSnap(d)
			srcDirty := !snapEq(b.working, srcHead) || !snapEq(b.staged, srcHead)
			dstDirty := !snapEq(d.working, dstHead) || !snapEq(d.staged, dstHead)
			ok := !(srcDirty && dstDirty)
			changed := map[string]bool{}
			for _, s := range []snap{b.working, b.staged, srcHead} {
				for n := range s {
					if !tableEq(b.working[n], srcHead[n]) || !tableEq(b.staged[n], srcHead[n]) {
						changed[n] = true
					}
				}
			}
			for n := range changed {
				if !tableEq(srcHead[n], dstHead[n]) {
					ok = false
				}
			}
			if ok {
				if srcDirty {
					nw, ns := dstHead.clone(), dstHead.clone()
					for n := range changed {
						if t := b.working[n]; t != nil {
							nw[n] = t.Clone()
						} else {
							delete(nw, n)
						}
						if t := b.staged[n]; t != nil {
							ns[n] = t.Clone()
						} else {
							delete(ns, n)
						}
					}
					d.working, d.staged = nw, ns
					b.working, b.staged = srcHead.clone(), srcHead.clone()
				}
				m.cur = otherBr
			}
		default: // commit what is staged
			if snapEq(b.staged, m.headSnap(b)) {
				if len(st.Pre) == 0 {
					continue
				}
				st.Op = "edits-only"
				break
			}
			idx := len(m.commits)
			m.commits = append(m.commits, &commitRec{Idx: idx, Parents: []int{b.head}, Snap: b.staged.clone(), Msg: fmt.Sprintf("c%d", idx)})
			p.Commits = m.commits
			st.Op, st.Commit = "commit", idx
			st.SQL = []string{fmt.Sprintf("call dolt_commit('-m','c%d')", idx)}
			b.head = idx
		}
		if st.Op == "" {
			continue
		}
		p.Steps = append(p.Steps, st)
	}
	p.Commits = m.commits
	return p
}

// c34FindingClass: classes precise enough to be judged on their own; they do not stop a run early.
var c34FindingClass = map[string]bool{
	"c34/stash-pop/staged/index-not-restored":             true,
	"c34/checkout-move/lost-working-change/dropped-table": true,
	"c34/checkout-move/lost-staged-change/dropped-table":  true,
}

func c34(c *rig.Ctx) {
	c.Rule("seeded programs: a repository with 1-3 tables, 2-3 commits on main and a branch `other` that diverges on a subset of the tables; then 3-8 steps, each " +
		"= dirty edits (per table every combination of {staged, unstaged} x {row change, table add/drop}) followed by one of: stash push+pop, stash push, " +
		"stash pop/drop of stash@{i}, stash clear, dolt_reset('--hard'[,X]) with X in {HEAD~1, other branch, any commit hash}, dolt_reset(), dolt_reset('.'), " +
		"dolt_reset('--soft'), dolt_reset(<table>), dolt_reset('--soft',X), dolt_reset(X), plain dolt_checkout(b), dolt_checkout('--move',b), dolt_commit. " +
		"Around every operation the real (HEAD, staged, working) contents of the branch(es) are observed through SQL (second session for the other branch) " +
		"and the relation the property states is asserted on the two observations. A step is distinct by (operation, dirty-state class, outcome)")
	c.Assume("brand-new untracked tables after reset --hard, and HEAD/staged after the ref-taking soft/mixed forms, are not asserted (the statement is silent); " +
		"plain SQL dolt_checkout only switches the session: both working sets must stay unchanged; the carry-over clause is asserted on dolt_checkout('--move',..): " +
		"success => every table changed in the source working set has exactly its pre-checkout working and staged content on the destination, refusal => both " +
		"working sets and the current branch unchanged; commit contents = staged contents observed right before dolt_commit (set-up commits: the generator's model)")
	srv, stop := startServer(c, "c34")
	defer stop()
	n := c.Pick(80, 1000)
	st := newTally()
	runParallel(n, 4, func(i int) {
		if st.get("c34.unclassified_violations") > 12 {
			return
		}
		r := c.SubRand("c34", i)
		p := genC34(r, fmt.Sprintf("c34_%d", i))
		c.Case(fmt.Sprintf("c34/%d", i), p.payload())
		if i < 3 {
			c.Sample(p.payload())
		}
		runC34(c, srv, p, st)
	})
	st.flush(c)
	for _, k := range []string{"c34.op.stash-pop", "c34.op.reset-hard", "c34.op.reset-all", "c34.op.reset-table", "c34.op.checkout", "c34.op.checkout-move"} {
		c.Require(st.get(k) > 0, "operation never exercised: "+k)
	}
	c.Require(st.get("c34.stash_pop_with_staged_and_unstaged_same_table") > 0, "no stash;pop with staged+unstaged edits of the same table")
	c.Require(st.get("c34.stash_pop_with_staged_new_table") > 0, "no stash;pop with a staged new table")
	c.Require(st.get("c34.reset_hard_to_other_commit") > 0, "no reset --hard to a commit other than HEAD")
	c.Require(st.get("c34.reset_hard_dirty") > 0, "no reset --hard with a dirty working set")
	c.Require(st.get("c34.checkout_move_carried") > 0, "no checkout --move carried changes over")
	c.Require(st.get("c34.checkout_move_refused") > 0, "no checkout --move was refused")
	c.Require(st.get("c34.checkout_plain_dirty") > 0, "no plain checkout with a dirty working set")
	c.Require(st.get("c34.stash_list_checks") > 0, "stash list never compared")
}

func runC34(c *rig.Ctx, srv *sqlrig.Server, p *c34Prog, st *tally) {
	x := srv.MustOpen("")
	defer x.Close()
	rig.Must(x.Exec("create database " + p.DB))
	defer x.Exec("drop database " + p.DB)
	rig.Must(x.Exec("use " + p.DB))
	if err := runScript(x, p.Setup, p.Commits); err != nil {
		c.Violation("c34/setup", "setup script failed: "+err.Error(), p.payload())
		return
	}
	o2 := srv.MustOpen(p.DB) // observer of the branch the main session is not on
	defer o2.Close()
	byHash := map[string]tabs{}
	for _, cm := range p.Commits {
		if cm.Hash != "" {
			byHash[cm.Hash] = snapTabs(cm.Snap)
		}
	}
	stepNo := 0
	viol := func(key, what string, extra map[string]any) {
		if !c34FindingClass[key] {
			st.inc("c34.unclassified_violations")
		}
		w := p.payload()
		w["failed_step"] = stepNo
		hashes := map[string]string{}
		for _, cm := range p.Commits {
			hashes[fmt.Sprintf("c%d", cm.Idx)] = cm.Hash
		}
		w["hashes"] = hashes
		for k, v := range extra {
			w[k] = v
		}
		c.Violation(key, what, w)
	}
	observeOther := func(branch string) (*obs, error) {
		if err := o2.Exec("call dolt_checkout('" + branch + "')"); err != nil {
			return nil, err
		}
		return observe(o2)
	}
	// model stash stack (for the list check): entries are (branch, head hash at push)
	type sEntry struct {
		branch, head string
		before       *obs // observation before the push
		after        *obs // observation right after the push
	}
	var stack []sEntry
	checkStashList := func(o *obs) {
		var want []string
		for i, e := range stack {
			want = append(want, fmt.Sprintf("stash@{%d}\x1f%s\x1f%s", i, e.branch, e.head))
		}
		st.inc("c34.stash_list_checks")
		if g, w := strings.Join(o.Stashes, "\n"), strings.Join(want, "\n"); g != w {
			viol("c34/stash-list", fmt.Sprintf("dolt_stashes = %q, model stack = %q", o.Stashes, want), nil)
			// resync the model stack to the observation length so that one slip is reported once
			for len(stack) > len(o.Stashes) {
				stack = stack[:len(stack)-1]
			}
		}
	}
	dirtyClass := func(o *obs, head tabs) string {
		s, w := len(tabsDiff(o.S, head)) > 0, len(tabsDiff(o.W, o.S)) > 0
		return fmt.Sprintf("staged=%v,unstaged=%v", s, w)
	}
	for i, step := range p.Steps {
		stepNo = i
		for _, q := range step.Pre {
			if err := x.Exec(subst(q, p.Commits)); err != nil {
				st.inc("c34.edit_statements_failed_after_drift")
			}
		}
		if step.Op == "edits-only" {
			continue
		}
		before, err := observe(x)
		if err != nil {
			viol("c34/observe", "cannot observe the working set: "+err.Error(), nil)
			return
		}
		headTabs, known := byHash[before.Head]
		if !known {
			viol("c34/harness", "HEAD "+before.Head+" is not a recorded commit", nil)
			return
		}
		st.inc("c34.op." + step.Op)
		sqlsNow := make([]string, len(step.SQL))
		for k, q := range step.SQL {
			sqlsNow[k] = subst(q, p.Commits)
		}
		exec := func(q string) error { _, err := x.Query(q); return err }
		dc := dirtyClass(before, headTabs)
		switch step.Op {
		case "commit":
			r, err := x.Query(sqlsNow[0])
			if err != nil {
				st.inc("c34.sequences_cut_short_by_drift")
				return
			}
			p.Commits[step.Commit].Hash = r.Data[0][0]
			byHash[r.Data[0][0]] = before.S // a commit holds exactly what was staged

		case "stash-pop":
			if err := exec(sqlsNow[0]); err != nil {
				st.inc("c34.stash_push_refused")
				continue
			}
			mid, err := observe(x)
			if err != nil {
				viol("c34/observe", err.Error(), nil)
				return
			}
			stack = append([]sEntry{{branch: before.Branch, head: before.Head}}, stack...)
			checkStashList(mid)
			if err := exec(sqlsNow[1]); err != nil {
				viol("c34/stash-pop/pop-error", "pop right after push failed: "+err.Error(), nil)
				return
			}
			stack = stack[1:]
			after, err := observe(x)
			if err != nil {
				viol("c34/observe", err.Error(), nil)
				return
			}
			checkStashList(after)
			// what kind of dirt was there
			for n := range before.W {
				if before.S.get(n) != headTabs.get(n) && before.W.get(n) != before.S.get(n) && headTabs[n] != nil {
					st.inc("c34.stash_pop_with_staged_and_unstaged_same_table")
				}
			}
			for n := range before.S {
				if headTabs[n] == nil {
					st.inc("c34.stash_pop_with_staged_new_table")
				}
			}
			for n := range headTabs {
				if _, ok := before.W[n]; !ok {
					st.inc("c34.stash_pop_with_dropped_table")
				}
			}
			c.Distinct("stash-pop/" + dc)
			if d := tabsDiff(before.W, after.W); len(d) > 0 {
				viol("c34/stash-pop/working", fmt.Sprintf("working contents after stash push; pop differ from before in tables %v: before %s, after %s", d, before.W.get(d[0]), after.W.get(d[0])), nil)
			}
			if d := tabsDiff(before.S, after.S); len(d) > 0 {
				// Finding class "index-not-restored": dolt_stash records ONE root (push first stages every tracked change), so what comes
				// back is: tracked tables unstaged (staged == HEAD), new tables staged with their WORKING contents. A table is in the class
				// when that explains it: (a) it exists in HEAD and its staged contents equal HEAD's after the pop, or (b) it is a new table
				// whose staged and working contents differed before the push and are equal after the pop.
				key := "c34/stash-pop/staged/index-not-restored"
				for _, n := range d {
					a := headTabs[n] != nil && after.S.get(n) == headTabs.get(n)
					b := headTabs[n] == nil && before.S.get(n) != before.W.get(n) && after.S.get(n) == after.W.get(n)
					if !a && !b {
						key = "c34/stash-pop/staged"
					}
				}
				viol(key, fmt.Sprintf("staged contents after stash push; pop differ from before in tables %v: before %s, after %s (HEAD %s)", d, before.S.get(d[0]), after.S.get(d[0]), headTabs.get(d[0])), nil)
			}

		case "stash-push":
			if err := exec(sqlsNow[0]); err != nil {
				st.inc("c34.stash_push_refused")
				continue
			}
			after, err := observe(x)
			if err != nil {
				viol("c34/observe", err.Error(), nil)
				return
			}
			stack = append([]sEntry{{branch: before.Branch, head: before.Head, before: before, after: after}}, stack...)
			checkStashList(after)
			c.Distinct("stash-push/" + dc)

		case "stash-pop-idx", "stash-drop", "stash-clear":
			if step.Op != "stash-clear" && step.Idx >= len(stack) {
				continue // drift: the entry does not exist
			}
			err := exec(sqlsNow[0])
			after, oerr := observe(x)
			if oerr != nil {
				viol("c34/observe", oerr.Error(), nil)
				return
			}
			if err != nil {
				// a refused pop (conflict with local changes) must keep the entry and the working set
				st.inc("c34.stash_pop_refused")
				if !tabsEq(before.W, after.W) || !tabsEq(before.S, after.S) {
					viol("c34/"+step.Op+"/refused-but-changed", "the operation failed ("+err.Error()+") but the working set changed", nil)
				}
				checkStashList(after)
				continue
			}
			switch step.Op {
			case "stash-clear":
				stack = nil
			default:
				e := stack[step.Idx]
				stack = append(append([]sEntry(nil), stack[:step.Idx]...), stack[step.Idx+1:]...)
				// contents: popped onto exactly the state the push left behind => the pre-push working contents come back
				if step.Op == "stash-pop-idx" && e.after != nil && e.after.Head == before.Head && tabsEq(e.after.W, before.W) && tabsEq(e.after.S, before.S) {
					st.inc("c34.stash_pop_idx_content_checks")
					if d := tabsDiff(e.before.W, after.W); len(d) > 0 {
						viol("c34/stash-pop-idx/working", fmt.Sprintf("pop of stash@{%d} onto the state its push left behind did not restore the stashed working contents (tables %v)", step.Idx, d), nil)
					}
				}
				if step.Op == "stash-drop" && (!tabsEq(before.W, after.W) || !tabsEq(before.S, after.S)) {
					viol("c34/stash-drop/changed-working-set", "stash drop changed the working set", nil)
				}
			}
			checkStashList(after)
			c.Distinct(step.Op + "/" + dc)

		case "reset-hard":
			err := exec(sqlsNow[0])
			after, oerr := observe(x)
			if oerr != nil {
				viol("c34/observe", oerr.Error(), nil)
				return
			}
			if err != nil {
				viol("c34/reset-hard/error", "dolt_reset --hard failed: "+err.Error(), map[string]any{"sql": sqlsNow})
				continue
			}
			target := p.Commits[step.Ref]
			root, ok := byHash[target.Hash]
			if !ok {
				st.inc("c34.sequences_cut_short_by_drift")
				return
			}
			if target.Hash != before.Head {
				st.inc("c34.reset_hard_to_other_commit")
			}
			if dc != "staged=false,unstaged=false" {
				st.inc("c34.reset_hard_dirty")
			}
			c.Distinct(fmt.Sprintf("reset-hard/%s/%v", dc, target.Hash != before.Head))
			if after.Head != target.Hash {
				viol("c34/reset-hard/head", fmt.Sprintf("HEAD after reset --hard is %s, target commit is c%d=%s", after.Head, step.Ref, target.Hash), map[string]any{"sql": sqlsNow})
			}
			asserted := map[string]bool{}
			for n := range root {
				asserted[n] = true
			}
			for n := range headTabs { // tracked before: in HEAD or staged
				asserted[n] = true
			}
			for n := range before.S {
				asserted[n] = true
			}
			for n := range asserted {
				if after.W.get(n) != root.get(n) {
					viol("c34/reset-hard/working", fmt.Sprintf("table %s: working after reset --hard = %s, target commit has %s", n, after.W.get(n), root.get(n)), map[string]any{"sql": sqlsNow})
				}
				if after.S.get(n) != root.get(n) {
					viol("c34/reset-hard/staged", fmt.Sprintf("table %s: staged after reset --hard = %s, target commit has %s", n, after.S.get(n), root.get(n)), map[string]any{"sql": sqlsNow})
				}
			}

		case "reset-all", "reset-table", "reset-soft-noref", "reset-soft-ref", "reset-mixed-ref":
			err := exec(sqlsNow[0])
			after, oerr := observe(x)
			if oerr != nil {
				viol("c34/observe", oerr.Error(), nil)
				return
			}
			c.Distinct(step.Op + "/" + dc)
			if d := tabsDiff(before.W, after.W); len(d) > 0 {
				viol("c34/"+step.Op+"/working-changed", fmt.Sprintf("%s changed the working contents of tables %v: before %s, after %s", sqlsNow[0], d, before.W.get(d[0]), after.W.get(d[0])), nil)
			}
			if err != nil {
				st.inc("c34.reset_soft_errors")
				if after.Head != before.Head || !tabsEq(before.S, after.S) {
					viol("c34/"+step.Op+"/error-but-changed", "the reset failed ("+err.Error()+") but HEAD or the staged contents changed", nil)
				}
				continue
			}
			switch step.Op {
			case "reset-all":
				if after.Head != before.Head {
					viol("c34/reset-all/head-changed", sqlsNow[0]+" moved HEAD", nil)
				}
				if d := tabsDiff(after.S, headTabs); len(d) > 0 {
					viol("c34/reset-all/staged-not-head", fmt.Sprintf("after %s the staged contents still differ from HEAD in tables %v", sqlsNow[0], d), nil)
				}
			case "reset-table":
				if after.Head != before.Head {
					viol("c34/reset-table/head-changed", sqlsNow[0]+" moved HEAD", nil)
				}
				if after.S.get(step.Table) != headTabs.get(step.Table) {
					viol("c34/reset-table/staged-not-head", fmt.Sprintf("after %s staged %s = %s, HEAD has %s", sqlsNow[0], step.Table, after.S.get(step.Table), headTabs.get(step.Table)), nil)
				}
				for _, n := range tabsDiff(before.S, after.S) {
					if n != step.Table {
						viol("c34/reset-table/other-table-staged-changed", fmt.Sprintf("%s changed the staged contents of another table (%s)", sqlsNow[0], n), nil)
					}
				}
			case "reset-soft-noref":
				if after.Head != before.Head {
					viol("c34/reset-soft-noref/head-changed", sqlsNow[0]+" moved HEAD", nil)
				}
			}

		case "checkout", "checkout-move":
			src, dst := before.Branch, step.Branch
			if src == dst {
				continue // drift
			}
			dstBefore, err := observeOther(dst)
			if err != nil {
				viol("c34/observe", "observer session: "+err.Error(), nil)
				return
			}
			cerr := exec(sqlsNow[0])
			after, oerr := observe(x)
			if oerr != nil {
				viol("c34/observe", oerr.Error(), nil)
				return
			}
			srcDirty := dc != "staged=false,unstaged=false"
			if cerr != nil || after.Branch == src {
				// refusal: nothing may have changed
				st.inc("c34." + strings.ReplaceAll(step.Op, "-", "_") + "_refused")
				dstAfter, err := observeOther(dst)
				if err != nil {
					viol("c34/observe", "observer session: "+err.Error(), nil)
					return
				}
				if step.Op == "checkout" {
					viol("c34/checkout/refused", fmt.Sprintf("plain dolt_checkout('%s') did not switch the branch: %v", dst, cerr), nil)
				}
				if after.Branch != src {
					viol("c34/"+step.Op+"/refused-but-switched", fmt.Sprintf("checkout failed (%v) but the session is on %s", cerr, after.Branch), nil)
				}
				if d := append(tabsDiff(before.W, after.W), tabsDiff(before.S, after.S)...); len(d) > 0 {
					viol("c34/"+step.Op+"/refused-but-source-changed", fmt.Sprintf("checkout refused but the original branch's working set changed in tables %v", d), nil)
				}
				if d := append(tabsDiff(dstBefore.W, dstAfter.W), tabsDiff(dstBefore.S, dstAfter.S)...); len(d) > 0 {
					viol("c34/"+step.Op+"/refused-but-destination-changed", fmt.Sprintf("checkout refused but the destination's working set changed in tables %v", d), nil)
				}
				c.Distinct(step.Op + "/refused/" + dc)
				continue
			}
			if after.Branch != dst {
				viol("c34/"+step.Op+"/branch", fmt.Sprintf("after a successful checkout the session is on %s, not %s", after.Branch, dst), nil)
				return
			}
			srcAfter, err := observeOther(src)
			if err != nil {
				viol("c34/observe", "observer session: "+err.Error(), nil)
				return
			}
			if step.Op == "checkout" {
				if srcDirty {
					st.inc("c34.checkout_plain_dirty")
				}
				c.Distinct("checkout/" + dc)
				if d := append(tabsDiff(before.W, srcAfter.W), tabsDiff(before.S, srcAfter.S)...); len(d) > 0 {
					viol("c34/checkout/source-changed", fmt.Sprintf("plain dolt_checkout changed the working set of the branch it left (%s) in tables %v", src, d), nil)
				}
				if d := append(tabsDiff(dstBefore.W, after.W), tabsDiff(dstBefore.S, after.S)...); len(d) > 0 {
					viol("c34/checkout/destination-changed", fmt.Sprintf("plain dolt_checkout changed the working set of the branch it switched to (%s) in tables %v", dst, d), nil)
				}
				continue
			}
			// --move succeeded: every table changed in the source working set must have exactly its pre-checkout content on the destination
			changed := map[string]bool{}
			for _, n := range tabsDiff(before.W, headTabs) {
				changed[n] = true
			}
			for _, n := range tabsDiff(before.S, headTabs) {
				changed[n] = true
			}
			if len(changed) > 0 {
				st.inc("c34.checkout_move_carried")
			} else {
				st.inc("c34.checkout_move_clean_source")
			}
			c.Distinct(fmt.Sprintf("checkout-move/ok/%s/%d", dc, len(changed)))
			for n := range changed {
				if after.W.get(n) != before.W.get(n) {
					key := "c34/checkout-move/lost-working-change"
					if _, ok := before.W[n]; !ok {
						key += "/dropped-table" // finding class: an uncommitted DROP TABLE is not carried over (and the source is cleaned)
					}
					viol(key, fmt.Sprintf("table %s was changed in the working set of %s (%s, HEAD %s); after the successful checkout --move the working set of %s has %s", n, src, before.W.get(n), headTabs.get(n), dst, after.W.get(n)), nil)
				}
				if after.S.get(n) != before.S.get(n) {
					key := "c34/checkout-move/lost-staged-change"
					if _, ok := before.S[n]; !ok {
						key += "/dropped-table"
					}
					viol(key, fmt.Sprintf("table %s: staged on %s before = %s; staged on %s after the successful checkout --move = %s", n, src, before.S.get(n), dst, after.S.get(n)), nil)
				}
			}
			if len(changed) == 0 {
				// nothing to carry: the destination keeps its own working set
				if d := append(tabsDiff(dstBefore.W, after.W), tabsDiff(dstBefore.S, after.S)...); len(d) > 0 {
					viol("c34/checkout-move/destination-changed", fmt.Sprintf("checkout --move from a clean working set changed the destination's working set in tables %v", d), nil)
				}
			}
			_ = srcAfter
		}
		if st.get("c34.unclassified_violations") > 12 {
			return
		}
	}
}
