#!/bin/bash
# ./mutant_run.sh <patch.diff> <Cnn> [tier]   — sensitivity testing without touching /repo:
# copies /repo/go and /verif to a scratch directory under /var/tmp, applies the patch (paths relative to
# the repository root, i.e. go/...), runs the check there and removes the scratch directory.
# Exit code = exit code of the check (1 = the monitor caught the mutant).
set -u
PATCH=$(readlink -f "${1:?patch}"); PROP="${2:?property}"; TIER="${3:-quick}"
S=/var/tmp/verif-mut-$$
trap 'rm -rf "$S"' EXIT
mkdir -p "$S/repo" "$S/verif"
cp -r /repo/go "$S/repo/go"
rsync -a --exclude .git --exclude .build --exclude logs --exclude replay --exclude evidence /verif/ "$S/verif/"
( cd "$S/repo" && patch -p1 --no-backup-if-mismatch < "$PATCH" ) || { echo "patch failed"; exit 3; }
sed -i "s|=> /repo/go|=> $S/repo/go|" "$S/verif/harness/go.mod"
[ -n "${VERIF_KNOWN:-}" ] && cp "$VERIF_KNOWN" "$S/verif/known_findings.json"   # optional alternate known-findings file
cd "$S/verif" && VERIF_ROOT="$S/verif" VERIF_REPO="$S/repo" VERIF_SEED="${VERIF_SEED:-1}" ./check "$PROP" "$TIER"
rc=$?
mkdir -p /verif/replay/mutant-last && rm -rf /verif/replay/mutant-last/* && cp -r "$S/verif/replay/." /verif/replay/mutant-last/ 2>/dev/null
echo "mutant_run: check exit=$rc (replay files copied to /verif/replay/mutant-last)"
exit $rc
